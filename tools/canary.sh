#!/bin/bash
# usage: canary.sh <name> <sed-expr> <file> <prop>...   (scratch worktree of /repo HEAD; edit; run checks; remove)
NAME=$1; EXPR=$2; FILE=$3; shift 3
WT=/var/tmp/canwt-$NAME; OUT=/var/tmp/canout-$NAME
git -C /repo worktree remove --force $WT >/dev/null 2>&1; rm -rf $WT $OUT
git -C /repo worktree add -q --detach $WT HEAD || exit 2
cd $WT && sed -i "$EXPR" $FILE && git diff --stat | tail -1
export GOFLAGS=-mod=mod GOPROXY=off
go build ./... && go test -vet=off -count=1 ./... 2>&1 | grep -v "no test files" | tail -1
for P in "$@"; do GOVERIF_REPO=$WT GOVERIF_OUT=$OUT timeout 900 /verif/bin/goverif check $P 2>&1 | grep -a "VIOLATION\|^C[0-9]*:" | sed "s#$OUT#<out>#" | cut -c1-220 | head -6; done
cd /; git -C /repo worktree remove --force $WT; rm -rf $WT $OUT; git -C /repo worktree prune
