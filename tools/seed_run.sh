#!/bin/bash
# usage: seed_run.sh <name> <property>...   applies /verif/seeded/<name>/patch.diff to /repo, runs the checks, undoes it.
NAME=$1; shift
if [ -n "$(git -C /repo status --porcelain)" ]; then echo "REFUSING: /repo has uncommitted changes"; exit 2; fi
cd /repo && git apply /verif/seeded/$NAME/patch.diff || exit 2
for P in "$@"; do
  /verif/bin/goverif check $P 2>&1 | grep -a "VIOLATION\|^C[0-9]*:" | cut -c1-300 | head -12
done
git -C /repo checkout -- .
git -C /repo status --short | head -3
