#!/bin/bash
# benign refactors must not alarm: scratch worktree, edit, run checks
run() { NAME=$1; shift; PY=$1; shift
WT=/var/tmp/benwt-$NAME; OUT=/var/tmp/benout-$NAME
git -C /repo worktree remove --force $WT >/dev/null 2>&1; rm -rf $WT $OUT
git -C /repo worktree add -q --detach $WT HEAD || exit 2
cd $WT && python3 -c "$PY" && git diff --stat | tail -1
export GOFLAGS=-mod=mod GOPROXY=off
go build ./... && go test -vet=off -count=1 ./... 2>&1 | grep -v "no test files" | tail -1
for P in "$@"; do GOVERIF_REPO=$WT GOVERIF_OUT=$OUT timeout 900 /verif/bin/goverif check $P 2>&1 | grep -a "VIOLATION\|^C[0-9]*:" | sed "s#$OUT#<out>#" | cut -c1-200 | head -4; done
cd /; git -C /repo worktree remove --force $WT; rm -rf $WT $OUT; git -C /repo worktree prune
}
echo "=== 1 rename local in go generator"
run rename 'import re
p="internal/parser/go_generator.go"; s=open(p).read()
s=s.replace("listLenType","arrayLenKind")
open(p,"w").write(s)' C01 C02 C11 C14
echo "=== 2 extract helper in java generator"
run helper 'p="internal/parser/java_generator.go"; s=open(p).read()
n=s.count("strcase.ToLowerCamel(")
s=s.replace("strcase.ToLowerCamel(","lowerCamelName(")
s+="\n// lowerCamelName is the Java member name of a DSL identifier.\nfunc lowerCamelName(s string) string {\n\treturn strcase.ToLowerCamel(s)\n}\n"
open(p,"w").write(s); print(n,"call sites")' C01 C07 C11 C13 C14
echo "=== 3 extra comment line in emitted python and reworded go comment"
run comment 'p="internal/parser/go_generator.go"; s=open(p).read()
assert "// Implement encoding logic here." in s
s=s.replace("// Implement encoding logic here.","// encode the fields in declaration order")
open(p,"w").write(s)' C01 C07 C11
echo "=== 4 formatter: rename helper and local"
run fmtrename 'p="internal/parser/packet_dsl_formattor.go"; s=open(p).read()
s=s.replace("indentComments","indentOwnLineComments").replace("formattedDsl","out")
open(p,"w").write(s)' C09 C10 C11
echo "=== 5 lua: rename locals, extra emitted comment lines, Sprintf instead of template"
run lua 'p="internal/parser/lua_wsp_generator.go"; s=open(p).read()
s=s.replace("packageName","pktSnake").replace("lenName","lengthVar")
a="""		code, err := RenderToString(decodeFieldTmpl, "lua", data)
		if err != nil {
			return "-- error generating code: " + err.Error() + "\\n"
		}
		return code"""
assert a in s
s=s.replace(a,"""		_ = data
		return fmt.Sprintf("%s:%s(fields.%s_%s, buf(offset, %d))\\noffset = offset + %d", treeName, addMethod, pktSnake, fieldName, luaType.Size, luaType.Size)""")
a="""	b.WriteString(AddIndent4ln("local offset = 0"))"""
assert a in s
s=s.replace(a,a+"""
	b.WriteString(AddIndent4ln("-- fields in declaration order"))""")
open(p,"w").write(s)' C15 C02 C07 C11 C14
echo "=== 6 formatter: object field line built by a helper with strings.Join (the correct version of seed C09f)"
run objhelper 'import subprocess
subprocess.check_call(["git","apply","/verif/seeded/C09f/patch.diff"])
p="internal/parser/packet_dsl_formattor.go"; s=open(p).read()
a="""		parts = append(parts, name.GetText())
		if doc := c.STRING_LITERAL(); doc != nil {
			parts = append(parts, v.docText(doc))
		}
	}
"""
assert a in s
s=s.replace(a,"""		parts = append(parts, name.GetText())
	}
	if doc := c.STRING_LITERAL(); doc != nil {
		parts = append(parts, v.docText(doc))
	}
""")
open(p,"w").write(s)' C09 C10 C11
echo "=== 7 model builder: type text held in a local; cycle check with its early returns swapped"
run typetext 'p="internal/parser/packet_dsl_parser.go"; s=open(p).read()
a="""	var attr model.FieldAttribute
	if ctx.Type_().BasicType() != nil {
		attr = &model.BasicFieldAttribute{
			Type: ctx.Type_().GetText(),
		}"""
assert a in s
s=s.replace(a,"""	var attr model.FieldAttribute
	typeText := ctx.Type_().GetText()
	if ctx.Type_().BasicType() != nil {
		attr = &model.BasicFieldAttribute{
			Type: typeText,
		}""",1)
open(p,"w").write(s)
p="internal/model/model.go"; s=open(p).read()
a="""	if state[p] == 1 {
		return true
	}
	if state[p] == 2 {
		return false
	}"""
assert a in s
s=s.replace(a,"""	if state[p] == 2 {
		return false
	}
	if state[p] == 1 {
		return true
	}""")
open(p,"w").write(s)' C08 C12 C11
echo "=== 8 go generator: length-of back-patch with a comment line and a renamed position variable"
run lenrename 'p="internal/parser/go_generator.go"; s=open(p).read()
assert "Pos := buf.Len()" in s
s=s.replace("Pos := buf.Len()","Slot := buf.Len()").replace("Pos:","Slot:").replace("Pos + ","Slot + ")
open(p,"w").write(s)' C04 C01
