#!/bin/bash
# usage: seed_verify.sh <seed-dir> <name> <demo_dir>
# Confirms a seeded change in a scratch worktree (outside /repo and /verif): suite passes with it,
# demo fails with it and passes without it. Then stores it under /verif/seeded/<name>/.
set -u
SEED=$1; NAME=$2; DEMO_DIR=${3:-internal/parser}
export GOFLAGS=-mod=mod GOPROXY=off
WT=/var/tmp/seedwt-$$
git -C /repo worktree add -q --detach $WT HEAD || exit 2
trap 'git -C /repo worktree remove --force $WT >/dev/null 2>&1' EXIT
cd $WT
if ! git apply $SEED/patch.diff; then echo "PATCH DOES NOT APPLY"; exit 3; fi
go build ./... || { echo "BUILD FAILS"; exit 3; }
SUITE=$(go test -vet=off -count=1 ./... 2>&1 | tail -5)
echo "$SUITE" | grep -q FAIL && { echo "SUITE FAILS WITH CHANGE"; echo "$SUITE"; exit 3; }
cp $SEED/zz_seed_demo_test.go $WT/$DEMO_DIR/zz_seed_demo_test.go
WITH=$(timeout 600 go test -vet=off -count=1 -timeout 300s -run 'Seed' ./$DEMO_DIR/ 2>&1 | tail -3)
git apply -R $SEED/patch.diff
WITHOUT=$(timeout 600 go test -vet=off -count=1 -timeout 300s -run 'Seed' ./$DEMO_DIR/ 2>&1 | tail -3)
echo "with change: $(echo "$WITH" | tr '\n' ' ')"
echo "without change: $(echo "$WITHOUT" | tr '\n' ' ')"
if echo "$WITH" | grep -q "^ok" ; then echo "DEMO DOES NOT FAIL WITH CHANGE"; exit 4; fi
if ! echo "$WITHOUT" | grep -q "^ok" ; then echo "DEMO DOES NOT PASS WITHOUT CHANGE"; exit 4; fi
mkdir -p /verif/seeded/$NAME
cp $SEED/patch.diff $SEED/zz_seed_demo_test.go /verif/seeded/$NAME/
cp $SEED/meta.json /verif/seeded/$NAME/meta.agent.json 2>/dev/null
echo "CONFIRMED $NAME"
