#!/usr/bin/env python3
"""Confirm every seeded change under /verif/seeded and record which checks catch it.

For each /verif/seeded/<name>/ (patch.diff, zz_seed_demo_test.go, meta.agent.json) a scratch worktree of
/repo HEAD is created under /var/tmp (never /repo itself, never /verif), the patch is applied there, the
repository's own test suite and the demonstration are run with and without it, and the checks of the
seed's property (plus C11, which owns every safety obligation) are run against the worktree through
GOVERIF_REPO / GOVERIF_OUT.  The result is written to /verif/seeded/<name>/meta.json.  The worktree and
its output directory are removed afterwards.

usage: seed_matrix.py [-j N] [name ...]
"""
import json, os, re, shutil, subprocess, sys, concurrent.futures as cf

ENV = dict(os.environ, GOFLAGS="-mod=mod", GOPROXY="off")
SEEDED = "/verif/seeded"
BIN = os.environ.get("GOVERIF_BIN", "/verif/bin/goverif")  # a copy may be used while the binary is being rebuilt
EXTRA = {  # further checks worth running for a seed (beyond its own property and C11)
    "C01c": ["C02", "C03"], "C03c": ["C01"], "C08d": ["C12", "C04"], "C11d": ["C12"], "C12e": ["C08"], "C14d": ["C13"], "C09d": ["C10"],
    "C02d": ["C05"], "C04d": ["C01"], "C05d": ["C08", "C12"], "C06d": ["C08"], "C10d": ["C09"], "C13d": ["C14"], "C11e": ["C07"],
    "C01d": ["C08", "C02"], "C07d": ["C05"], "C12f": ["C16"], "C14e": ["C13"], "C09e": ["C10"], "C08e": ["C05", "C12"],
    "C16f": ["C13"], "C11f": ["C07"], "C13e": ["C14"], "C03d": ["C01", "C02"], "C12g": ["C08"], "C04e": ["C12", "C08"],
    "C11g": ["C12"], "C12h": ["C08"], "C10e": ["C09"], "C09f": ["C10"], "C08f": ["C12"],
    "C08a": ["C14", "C12"], "C11b": ["C09"], "C06c": ["C08", "C02"], "C02c": ["C03"], "C04c": ["C01"], "C05c": ["C02"], "C13c": ["C14"], "C10c": ["C09"], "C09c": ["C10"], "C05a": ["C07"], "C07a": ["C05"], "C14a": ["C13"], "C13a": ["C14"],
}


def sh(cmd, cwd=None, env=ENV, timeout=1800):
    r = subprocess.run(cmd, shell=True, cwd=cwd, env=env, capture_output=True, text=True, timeout=timeout)
    return r.returncode, (r.stdout + r.stderr)


def demo_dir(path):
    m = re.search(r"^package (\w+)", open(path).read(), re.M)
    return {"parser": "internal/parser", "model": "internal/model", "main": "cmd"}.get(m.group(1) if m else "", "internal/parser")


def one(name):
    d = os.path.join(SEEDED, name)
    agent = json.load(open(os.path.join(d, "meta.agent.json")))
    prop = agent.get("property", name[:3])
    wt, out = f"/var/tmp/seedwt-{name}", f"/var/tmp/seedout-{name}"
    meta = {"seed": name, "property": prop, "summary": agent.get("summary"), "needs": agent.get("needs"),
            "produced_by": "fresh sub-agent given only the property text and a scratch worktree",
            "agent_ran": agent.get("ran") or agent.get("agent_ran"), "confirmed_by_me": {}, "checks": {}}
    sh(f"git -C /repo worktree remove --force {wt}; rm -rf {wt} {out}")
    head = sh("git -C /repo rev-parse HEAD")[1].strip()
    meta["confirmed_by_me"]["repo_commit"] = head
    rc, o = sh(f"git -C /repo worktree add -q --detach {wt} HEAD")
    if rc != 0:
        meta["confirmed_by_me"]["error"] = o
        return name, meta
    try:
        rc, o = sh(f"git apply --check {d}/patch.diff", cwd=wt)
        if rc != 0:
            meta["confirmed_by_me"]["applies"] = False
            meta["confirmed_by_me"]["note"] = "patch no longer applies to the current tree (the code it changes was repaired by a later fix: commit): " + o.strip()[:300]
            return name, meta
        meta["confirmed_by_me"]["applies"] = True
        dd = demo_dir(f"{d}/zz_seed_demo_test.go")
        ran = []
        # without the change: demo passes
        shutil.copy(f"{d}/zz_seed_demo_test.go", f"{wt}/{dd}/zz_seed_demo_test.go")
        rc0, o0 = sh(f"go test -vet=off -count=1 -timeout 300s -run Seed ./{dd}/", cwd=wt)
        ran.append(f"(scratch worktree of {head[:7]}) go test -run Seed ./{dd}/ without the change -> {'ok' if rc0 == 0 else 'FAIL'}")
        os.remove(f"{wt}/{dd}/zz_seed_demo_test.go")
        sh(f"git apply {d}/patch.diff", cwd=wt)
        rc1, o1 = sh("go build ./... && go test -vet=off -count=1 ./...", cwd=wt)
        ran.append(f"git apply patch.diff; go build ./... && go test ./... (existing suite) -> {'ok' if rc1 == 0 else 'FAIL'}")
        shutil.copy(f"{d}/zz_seed_demo_test.go", f"{wt}/{dd}/zz_seed_demo_test.go")
        rc2, o2 = sh(f"go test -vet=off -count=1 -timeout 300s -run Seed ./{dd}/", cwd=wt)
        ran.append(f"go test -run Seed ./{dd}/ with the change -> {'ok' if rc2 == 0 else 'FAIL (as intended)'}")
        os.remove(f"{wt}/{dd}/zz_seed_demo_test.go")
        meta["confirmed_by_me"]["ran"] = ran
        meta["confirmed_by_me"]["valid_seed"] = (rc0 == 0 and rc1 == 0 and rc2 != 0)
        if rc2 != 0:
            fl = [l for l in o2.splitlines() if "---" in l or "Error" in l or "panic" in l][:4]
            meta["confirmed_by_me"]["demo_failure"] = fl
        env = dict(ENV, GOVERIF_REPO=wt, GOVERIF_OUT=out)
        props = [prop] + [p for p in ["C11"] + EXTRA.get(name, []) if p != prop]
        for p in props:
            rc, o = sh(f"timeout 1500 {BIN} check -tier quick {p}", cwd="/verif", env=env)
            viol = [l for l in o.splitlines() if l.startswith("VIOLATION")]
            summ = [l for l in o.splitlines() if re.match(r"^C\d+:", l)]
            meta["checks"][p] = {"exit": rc, "violations": len(viol), "first": [v.replace(out, "<out>")[:260] for v in viol[:3]],
                                 "summary": summ[-1] if summ else o[-300:]}
        meta["caught_by"] = sorted(p for p, r in meta["checks"].items() if r["exit"] == 1 and r["violations"] > 0)
    finally:
        sh(f"git -C /repo worktree remove --force {wt}; rm -rf {wt} {out}; git -C /repo worktree prune")
    return name, meta


def main():
    args = sys.argv[1:]
    j = 4
    if args[:1] == ["-j"]:
        j = int(args[1]); args = args[2:]
    names = args or sorted(n for n in os.listdir(SEEDED) if os.path.exists(os.path.join(SEEDED, n, "patch.diff")))
    with cf.ThreadPoolExecutor(j) as ex:
        for name, meta in ex.map(one, names):
            json.dump(meta, open(os.path.join(SEEDED, name, "meta.json"), "w"), indent=1)
            c = meta.get("confirmed_by_me", {})
            print(name, "applies=%s valid=%s" % (c.get("applies"), c.get("valid_seed")), "caught_by=%s" % meta.get("caught_by"),
                  {p: r["violations"] for p, r in meta.get("checks", {}).items()}, flush=True)


if __name__ == "__main__":
    main()
