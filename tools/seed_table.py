#!/usr/bin/env python3
"""Print the markdown table of /verif/seeded/*/meta.json (used for DESIGN.md section 9)."""
import json, glob, os
print("| seed | property | change (short) | applies to HEAD | caught by (violations) | also run, silent |")
print("|------|----------|----------------|-----------------|------------------------|-----------|")
for f in sorted(glob.glob('/verif/seeded/*/meta.json')):
    m = json.load(open(f))
    c = m.get('confirmed_by_me', {})
    s = (m.get('summary') or '').replace('\n', ' ').replace('|', '/')
    s = s[:110] + ('…' if len(s) > 110 else '')
    ch = m.get('checks', {})
    caught = ', '.join('%s (%d)' % (p, r['violations']) for p, r in sorted(ch.items()) if r['exit'] == 1 and r['violations'] > 0) or '—'
    missed = ', '.join(p for p, r in sorted(ch.items()) if not (r['exit'] == 1 and r['violations'] > 0)) or '—'
    print("| %s | %s | %s | %s | %s | %s |" % (m['seed'], m['property'], s, 'yes' if c.get('applies') else 'no (code since repaired)', caught, missed))
