#!/bin/bash
# usage: applyseed.sh <seed> <prop>...  (scratch worktree)
NAME=$1; shift
WT=/var/tmp/aswt-$NAME; OUT=/var/tmp/asout-$NAME
git -C /repo worktree remove --force $WT >/dev/null 2>&1; rm -rf $WT $OUT
git -C /repo worktree add -q --detach $WT HEAD || exit 2
cd $WT && git apply /verif/seeded/$NAME/patch.diff || { echo "does not apply"; }
for P in "$@"; do GOFLAGS=-mod=mod GOPROXY=off GOVERIF_REPO=$WT GOVERIF_OUT=$OUT timeout 900 /verif/bin/goverif check $P 2>&1 | grep -a "VIOLATION\|^C[0-9]*:" | sed "s#$OUT#<out>#" | cut -c1-250 | head -6; done
cd /; git -C /repo worktree remove --force $WT; rm -rf $WT $OUT; git -C /repo worktree prune
