#!/bin/sh
# Builds the verifier from files on disk only (offline).
set -e
cd "$(dirname "$0")/goverif"
export GOFLAGS=-mod=mod GOPROXY=off
mkdir -p ../bin
go build -o ../bin/goverif .
