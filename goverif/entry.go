package main

import (
	"go/types"
)

// entryAssumptions: uniform preconditions.
//   - a parameter of type *grammar.XContext is a non-nil parse-tree node (tree contract);
//   - in generator-phase (phase B) functions, pointer parameters to repository structs are
//     non-nil and satisfy their declared type invariants.
func (e *Engine) entryAssumptions(s *State, f *Frame) {
	for i, p := range f.fn.Params {
		v := f.params[i]
		if grammarCtxName(p.Type()) != "" {
			if _, ok := p.Type().(*types.Pointer); ok {
				s.assume(Ne(v[0], Zero))
				s.assume(Le(Zero, App("acc.depth", SInt, v[0])))
			}
		}
		if e.curPhaseB {
			e.assumeParamInv(s, p.Type(), v)
		}
	}
}

func (e *Engine) assumeParamInv(s *State, t types.Type, v Value) {
	switch u := t.Underlying().(type) {
	case *types.Pointer:
		if e.typeInRepo(t) {
			s.assume(Ne(v[0], Zero))
			e.assumeTypeInv(s, t, v, Place{})
		}
	case *types.Struct:
		if n, ok := t.(*types.Named); ok && e.isTransparent(n) {
			off := 0
			for i := 0; i < u.NumFields(); i++ {
				n := len(e.layout(u.Field(i).Type()))
				e.assumeParamInv(s, u.Field(i).Type(), v[off:off+n])
				off += n
			}
		}
	default:
		e.assumeTypeInv(s, t, v, Place{})
	}
}

// implicitRequires: the uniform preconditions as proof obligations at a modular call site.
func (e *Engine) implicitRequires(s *State, calleePhaseB bool, t types.Type, v Value) *Term {
	if grammarCtxName(t) != "" {
		if _, ok := t.(*types.Pointer); ok {
			return Ne(v[0], Zero)
		}
	}
	if calleePhaseB {
		switch u := t.Underlying().(type) {
		case *types.Pointer:
			if e.typeInRepo(t) {
				return Ne(v[0], Zero)
			}
		case *types.Struct:
			if n, ok := t.(*types.Named); ok && e.isTransparent(n) {
				var cs []*Term
				off := 0
				for i := 0; i < u.NumFields(); i++ {
					n := len(e.layout(u.Field(i).Type()))
					cs = append(cs, e.implicitRequires(s, calleePhaseB, u.Field(i).Type(), v[off:off+n]))
					off += n
				}
				return And(cs...)
			}
		}
	}
	return True
}
