package main

// Replay: run candidate DSL inputs through the REAL entry points (FormatPacketDsl, ParseFile +
// the six generators) in a subprocess built from /repo's current tree, and match what the real
// code did against a failed obligation.

import (
	"bufio"
	"encoding/json"
	"fmt"
	"os"
	"os/exec"
	"path/filepath"
	"regexp"
	"sort"
	"strings"
)

const harnessSrc = `package parser

import (
	"encoding/json"
	"fmt"
	"os"
	"path/filepath"
	"reflect"
	"runtime"
	"sort"
	"strings"
	"testing"

	"github.com/xinchentechnote/fin-protoc/internal/model"
)

// goverifFingerprint: a deep, pointer-identity aware rendering of the model (to detect that a
// generator changed an object that existed before it ran).
func goverifFingerprint(v reflect.Value, seen map[uintptr]int, b *strings.Builder, depth int) {
	if depth > 200 {
		b.WriteString("<deep>")
		return
	}
	switch v.Kind() {
	case reflect.Ptr:
		if v.IsNil() {
			b.WriteString("nil")
			return
		}
		if id, ok := seen[v.Pointer()]; ok {
			fmt.Fprintf(b, "^%d", id)
			return
		}
		seen[v.Pointer()] = len(seen)
		fmt.Fprintf(b, "&%d", len(seen)-1)
		goverifFingerprint(v.Elem(), seen, b, depth+1)
	case reflect.Interface:
		if v.IsNil() {
			b.WriteString("nil")
			return
		}
		b.WriteString(v.Elem().Type().String() + ":")
		goverifFingerprint(v.Elem(), seen, b, depth+1)
	case reflect.Struct:
		b.WriteString("{")
		for i := 0; i < v.NumField(); i++ {
			b.WriteString(v.Type().Field(i).Name + "=")
			goverifFingerprint(v.Field(i), seen, b, depth+1)
			b.WriteString(";")
		}
		b.WriteString("}")
	case reflect.Slice, reflect.Array:
		if v.Kind() == reflect.Slice && v.IsNil() {
			b.WriteString("nil[]")
			return
		}
		b.WriteString("[")
		for i := 0; i < v.Len(); i++ {
			goverifFingerprint(v.Index(i), seen, b, depth+1)
			b.WriteString(",")
		}
		b.WriteString("]")
	case reflect.Map:
		if v.IsNil() {
			b.WriteString("nilmap")
			return
		}
		keys := v.MapKeys()
		sort.Slice(keys, func(i, j int) bool { return fmt.Sprint(keys[i].Interface()) < fmt.Sprint(keys[j].Interface()) })
		b.WriteString("map[")
		for _, k := range keys {
			if k.Kind() == reflect.Ptr {
				b.WriteString("ptrkey")
			} else {
				fmt.Fprint(b, k.Interface())
			}
			b.WriteString(":")
			goverifFingerprint(v.MapIndex(k), seen, b, depth+1)
			b.WriteString(",")
		}
		b.WriteString("]")
	default:
		if v.CanInterface() {
			fmt.Fprintf(b, "%#v", v.Interface())
		} else {
			fmt.Fprintf(b, "%v", v)
		}
	}
}

func goverifModelPrint(m *model.BinaryModel) string {
	var b strings.Builder
	goverifFingerprint(reflect.ValueOf(m), map[uintptr]int{}, &b, 0)
	return b.String()
}

func goverifFilesPrint(m map[string][]byte) string {
	ks := make([]string, 0, len(m))
	for k := range m {
		ks = append(ks, k)
	}
	sort.Strings(ks)
	var b strings.Builder
	for _, k := range ks {
		b.WriteString(k + "\x00" + string(m[k]) + "\x01")
	}
	return b.String()
}

type goverifOutcome struct {
	Input  string   ` + "`json:\"input\"`" + `
	File   string   ` + "`json:\"file\"`" + `
	Entry  string   ` + "`json:\"entry\"`" + `
	Panic  string   ` + "`json:\"panic,omitempty\"`" + `
	Frames []string ` + "`json:\"frames,omitempty\"`" + `
	Note   string   ` + "`json:\"note,omitempty\"`" + `
}

func goverifGuard(out *goverifOutcome, f func()) {
	defer func() {
		if r := recover(); r != nil {
			out.Panic = fmt.Sprint(r)
			pcs := make([]uintptr, 64)
			n := runtime.Callers(3, pcs)
			fr := runtime.CallersFrames(pcs[:n])
			for {
				f, more := fr.Next()
				if strings.Contains(f.Function, "fin-protoc") && !strings.Contains(f.Function, "goverif") {
					out.Frames = append(out.Frames, fmt.Sprintf("%s:%d", f.Function, f.Line))
				}
				if !more {
					break
				}
			}
		}
	}()
	f()
}

func TestGoverifReplay(t *testing.T) {
	dir := os.Getenv("GOVERIF_REPLAY_DIR")
	if dir == "" {
		t.Skip()
	}
	files, _ := filepath.Glob(filepath.Join(dir, "*.dsl"))
	sort.Strings(files)
	outf, _ := os.OpenFile(filepath.Join(dir, "outcomes.jsonl"), os.O_APPEND|os.O_CREATE|os.O_WRONLY, 0644)
	defer outf.Close()
	done := map[string]bool{}
	if b, err := os.ReadFile(filepath.Join(dir, "done.txt")); err == nil {
		for _, l := range strings.Split(string(b), "\n") {
			done[l] = true
		}
	}
	donef, _ := os.OpenFile(filepath.Join(dir, "done.txt"), os.O_APPEND|os.O_CREATE|os.O_WRONLY, 0644)
	defer donef.Close()
	null, _ := os.OpenFile(os.DevNull, os.O_WRONLY, 0)
	os.Stdout = null
	emit := func(o goverifOutcome) {
		b, _ := json.Marshal(o)
		outf.Write(append(b, '\n'))
	}
	for _, f := range files {
		if done[f] {
			continue
		}
		// mark as started: if the process dies (stack overflow), the next run skips it
		os.WriteFile(filepath.Join(dir, "current.txt"), []byte(f), 0644)
		src, _ := os.ReadFile(f)
		in := string(src)
		o := goverifOutcome{Input: in, File: filepath.Base(f), Entry: "FormatPacketDsl"}
		goverifGuard(&o, func() { FormatPacketDsl(in) })
		emit(o)
		var res interface{}
		var err error
		o = goverifOutcome{Input: in, File: filepath.Base(f), Entry: "ParseFile"}
		goverifGuard(&o, func() { res, err = ParseFile(f) })
		emit(o)
		if m, ok := res.(*model.BinaryModel); ok && err == nil && len(m.SyntaxErrors) == 0 {
			gens := []struct {
				n string
				f func() (map[string][]byte, error)
			}{
				{"Lua", func() (map[string][]byte, error) { return NewLuaWspGenerator(m).Generate(m) }},
				{"Rust", func() (map[string][]byte, error) { return NewRustGenerator(m).Generate(m) }},
				{"Go", func() (map[string][]byte, error) { return NewGoGenerator(m).Generate(m) }},
				{"Java", func() (map[string][]byte, error) { return NewJavaGenerator(m).Generate(m) }},
				{"Python", func() (map[string][]byte, error) { return NewPythonGenerator(m).Generate(m) }},
				{"Cpp", func() (map[string][]byte, error) { return NewCppGenerator(m).Generate(m) }},
			}
			for _, g := range gens {
				o = goverifOutcome{Input: in, File: filepath.Base(f), Entry: "Generate:" + g.n}
				var first string
				goverifGuard(&o, func() {
					before := goverifModelPrint(m)
					out, _ := g.f()
					first = goverifFilesPrint(out)
					if after := goverifModelPrint(m); after != before {
						o.Note = "mutation: the model differs after " + g.n + " Generate"
					}
				})
				emit(o)
				if o.Panic == "" && o.Note == "" {
					// determinism: the same model, generated again several times
					o2 := goverifOutcome{Input: in, File: filepath.Base(f), Entry: "Generate:" + g.n}
					goverifGuard(&o2, func() {
						for k := 0; k < 6; k++ {
							out, _ := g.f()
							if goverifFilesPrint(out) != first {
								o2.Note = "nondeterminism: " + g.n + " Generate produced different files from the same model"
								break
							}
						}
					})
					if o2.Note != "" || o2.Panic != "" {
						emit(o2)
					}
				}
			}
		}
		donef.WriteString(f + "\n")
	}
	os.Remove(filepath.Join(dir, "current.txt"))
}
`

type Outcome struct {
	Input  string   `json:"input"`
	File   string   `json:"file"`
	Entry  string   `json:"entry"`
	Panic  string   `json:"panic,omitempty"`
	Frames []string `json:"frames,omitempty"`
	Note   string   `json:"note,omitempty"`
}

var crashOutcomes []Outcome
var crashCorpusRan bool
var crashCorpusSize int

// runCrashCorpus runs the candidate corpus once per process.
func runCrashCorpus(e *Engine) []Outcome {
	if crashCorpusRan {
		return crashOutcomes
	}
	crashCorpusRan = true
	dir, err := os.MkdirTemp("/var/tmp", "goverif-replay-")
	if err != nil {
		return nil
	}
	defer os.RemoveAll(dir)
	inputs := candidateInputs(e)
	crashCorpusSize = len(inputs)
	for i, in := range inputs {
		os.WriteFile(filepath.Join(dir, fmt.Sprintf("c%04d.dsl", i)), []byte(in), 0644)
	}
	harness := filepath.Join(dir, "zz_goverif_replay_test.go")
	os.WriteFile(harness, []byte(harnessSrc), 0644)
	ov := map[string]interface{}{"Replace": map[string]string{filepath.Join(repoRoot, "internal/parser/zz_goverif_replay_test.go"): harness}}
	ovb, _ := json.Marshal(ov)
	ovf := filepath.Join(dir, "overlay.json")
	os.WriteFile(ovf, ovb, 0644)
	for attempt := 0; attempt < 12; attempt++ {
		cmd := exec.Command("go", "test", "-overlay", ovf, "-vet=off", "-count=1", "-timeout", "120s", "-run", "^TestGoverifReplay$", "./internal/parser/")
		cmd.Dir = repoRoot
		cmd.Env = append(os.Environ(), "GOVERIF_REPLAY_DIR="+dir, "GOFLAGS=-mod=mod", "GOPROXY=off")
		out, err := cmd.CombinedOutput()
		cur, rerr := os.ReadFile(filepath.Join(dir, "current.txt"))
		if rerr != nil {
			break // finished
		}
		// the process died while working on `cur`: fatal crash (stack overflow / OOM / timeout)
		note := "process died"
		so := string(out)
		switch {
		case strings.Contains(so, "stack overflow") || strings.Contains(so, "goroutine stack exceeds"):
			note = "fatal: stack overflow"
		case strings.Contains(so, "test timed out"):
			note = "hang: test timed out after 120s"
		case strings.Contains(so, "out of memory"):
			note = "fatal: out of memory"
		}
		_ = err
		src, _ := os.ReadFile(string(cur))
		var frames []string
		re := regexp.MustCompile(`(github.com/xinchentechnote/fin-protoc/[^\s(]+(?:\([^)]*\))?[^\s(]*)\(`)
		seen := map[string]bool{}
		for _, m := range re.FindAllStringSubmatch(so, -1) {
			if !seen[m[1]] && len(frames) < 12 {
				seen[m[1]] = true
				frames = append(frames, m[1])
			}
		}
		b, _ := json.Marshal(Outcome{Input: string(src), File: filepath.Base(string(cur)), Entry: "process", Panic: note, Frames: frames})
		f, _ := os.OpenFile(filepath.Join(dir, "outcomes.jsonl"), os.O_APPEND|os.O_CREATE|os.O_WRONLY, 0644)
		f.Write(append(b, '\n'))
		f.Close()
		d, _ := os.OpenFile(filepath.Join(dir, "done.txt"), os.O_APPEND|os.O_CREATE|os.O_WRONLY, 0644)
		d.WriteString(string(cur) + "\n")
		d.Close()
		os.Remove(filepath.Join(dir, "current.txt"))
	}
	f, err := os.Open(filepath.Join(dir, "outcomes.jsonl"))
	if err != nil {
		return nil
	}
	defer f.Close()
	sc := bufio.NewScanner(f)
	sc.Buffer(make([]byte, 1<<20), 1<<24)
	for sc.Scan() {
		var o Outcome
		if json.Unmarshal(sc.Bytes(), &o) == nil {
			crashOutcomes = append(crashOutcomes, o)
		}
	}
	return crashOutcomes
}

var reNorm = regexp.MustCompile(`[()*]`)

// normFunc: "(*parser.X).M" / "github.com/.../internal/parser.(*X).M:123" -> "parser.X.M"
func normFunc(s string) string {
	if i := strings.LastIndex(s, ":"); i > 0 && !strings.Contains(s[i:], ")") {
		s = s[:i]
	}
	if i := strings.LastIndex(s, "/"); i >= 0 {
		s = s[i+1:]
	}
	s = reNorm.ReplaceAllString(s, "")
	s = strings.TrimSuffix(s, "-fm")
	return s
}

// siteFunc: the function containing the obligation's site (last chain segment before '#').
func siteFuncs(name string) []string {
	head := name
	if i := strings.Index(head, "#"); i >= 0 {
		head = head[:i]
	}
	var out []string
	for _, seg := range strings.Split(head, "/") {
		out = append(out, normFunc(seg))
	}
	// callee named in a PRE obligation
	if m := regexp.MustCompile(`#PRE:([^#]+?):(?:\d+|nonnil)`).FindStringSubmatch(name); m != nil {
		out = append(out, normFunc(m[1]))
	}
	if m := regexp.MustCompile(`#CALL:call:(.+?):\d+#`).FindStringSubmatch(name); m != nil {
		out = append(out, normFunc(m[1]))
	}
	return out
}

func replayObligation(e *Engine, spec *PropSpec, o *Obligation) *ReplayResult {
	switch o.Kind {
	case "SAFE", "PRE", "TERM", "INV":
	case "FRAME", "DET":
		// generators: a changed model / differing files observed on the real code for the same target
		outs := runCrashCorpus(e)
		lang := ""
		for _, l := range []string{"Lua", "Rust", "Go", "Java", "Python", "Cpp"} {
			if strings.Contains(o.Name, "parser."+l) || strings.Contains(o.Func, l+"Generator") || strings.Contains(o.Func, l+"WspGenerator") {
				lang = l
			}
		}
		want := "mutation:"
		if o.Kind == "DET" {
			want = "nondeterminism:"
		}
		for _, oc := range outs {
			if strings.HasPrefix(oc.Note, want) && (lang == "" || oc.Entry == "Generate:"+lang) {
				return &ReplayResult{Reproduced: true, Input: oc.Input, Entry: oc.Entry, Observed: oc.Note, Tried: crashCorpusSize}
			}
		}
		return &ReplayResult{Reproduced: false, Tried: crashCorpusSize, Note: "no candidate input showed a " + strings.TrimSuffix(want, ":") + " on the real code for " + lang}
	default:
		return &ReplayResult{Note: "no replay strategy for obligation kind " + o.Kind}
	}
	outs := runCrashCorpus(e)
	want := map[string]bool{}
	for _, f := range siteFuncs(o.Name) {
		want[f] = true
	}
	for _, oc := range outs {
		if oc.Panic == "" {
			continue
		}
		fatal := oc.Entry == "process"
		if (o.Kind == "TERM") != fatal {
			continue // non-termination shows as stack overflow / timeout only
		}
		top := oc.Frames
		if len(top) > 4 {
			top = top[:4]
		}
		for _, fr := range top {
			if want[normFunc(fr)] {
				return &ReplayResult{Reproduced: true, Input: oc.Input, Entry: oc.Entry, Observed: "panic: " + oc.Panic + " at " + strings.Join(oc.Frames[:min(len(oc.Frames), 4)], " <- "), Tried: crashCorpusSize}
			}
		}
	}
	return &ReplayResult{Reproduced: false, Tried: crashCorpusSize, Note: "no candidate input made the real code panic in " + strings.Join(sortedSet(want), ", ")}
}

func sortedSet(m map[string]bool) []string {
	var ks []string
	for k := range m {
		ks = append(ks, k)
	}
	sort.Strings(ks)
	return ks
}

func min(a, b int) int {
	if a < b {
		return a
	}
	return b
}
