package main

// AGREE (thorough tier): the symbolic text of every EMIT cell, instantiated with concrete names and
// option values, must be character for character the text the real emitter produces for the concrete
// DSL instance of that cell.  This validates the path executor and the library contracts it relies on
// (strings.Builder, fmt.Sprintf, strcase, table lookups) against the code that runs, on every cell and
// two configurations.  Cells whose symbolic construction has no exact DSL counterpart (a length field
// whose target is not a field of the packet) are skipped and counted.

import (
	"fmt"
	"strings"

	"github.com/iancoleman/strcase"
)

type cenv map[string]interface{}

func evalTerm(t *Term, env cenv) (interface{}, bool) {
	switch t.K {
	case KStrLit:
		return t.Name, true
	case KInt:
		return t.I, true
	case KBool:
		return t == True, true
	case KSym:
		v, ok := env[t.Name]
		return v, ok
	}
	args := func() ([]interface{}, bool) {
		var out []interface{}
		for _, a := range t.Args {
			v, ok := evalTerm(a, env)
			if !ok {
				return nil, false
			}
			out = append(out, v)
		}
		return out, true
	}
	switch t.Name {
	case "concat":
		as, ok := args()
		if !ok {
			return nil, false
		}
		var b strings.Builder
		for _, a := range as {
			s, ok := a.(string)
			if !ok {
				return nil, false
			}
			b.WriteString(s)
		}
		return b.String(), true
	case "ite":
		c, ok := evalTerm(t.Args[0], env)
		if !ok {
			return nil, false
		}
		if cb, _ := c.(bool); cb {
			return evalTerm(t.Args[1], env)
		}
		return evalTerm(t.Args[2], env)
	case "=":
		as, ok := args()
		if !ok {
			return nil, false
		}
		return as[0] == as[1], true
	case "not":
		as, ok := args()
		if !ok {
			return nil, false
		}
		b, ok := as[0].(bool)
		return !b, ok
	case "and", "or":
		// short-circuit over the evaluable arguments
		unknown := false
		for _, a := range t.Args {
			v, ok := evalTerm(a, env)
			if !ok {
				unknown = true
				continue
			}
			b, _ := v.(bool)
			if t.Name == "and" && !b {
				return false, true
			}
			if t.Name == "or" && b {
				return true, true
			}
		}
		if unknown {
			return nil, false
		}
		return t.Name == "and", true
	case "add":
		as, ok := args()
		if !ok {
			return nil, false
		}
		var n int64
		for _, a := range as {
			i, ok := a.(int64)
			if !ok {
				return nil, false
			}
			n += i
		}
		return n, true
	case "<=", "<":
		as, ok := args()
		if !ok {
			return nil, false
		}
		a, ok1 := as[0].(int64)
		b, ok2 := as[1].(int64)
		if !ok1 || !ok2 {
			return nil, false
		}
		if t.Name == "<" {
			return a < b, true
		}
		return a <= b, true
	case "strlen":
		as, ok := args()
		if !ok {
			return nil, false
		}
		s, ok := as[0].(string)
		return int64(len(s)), ok
	case "fmt.int.d":
		as, ok := args()
		if !ok {
			return nil, false
		}
		return fmt.Sprint(as[0]), true
	case "strcase.ToSnake", "strcase.ToCamel", "strcase.ToLowerCamel", "strcase.ToScreamingSnake", "strcase.ToKebab", "strings.ToLower", "strings.ToUpper", "strings.TrimSpace":
		as, ok := args()
		if !ok {
			return nil, false
		}
		s, ok := as[0].(string)
		if !ok {
			return nil, false
		}
		switch t.Name {
		case "strcase.ToSnake":
			return strcase.ToSnake(s), true
		case "strcase.ToCamel":
			return strcase.ToCamel(s), true
		case "strcase.ToLowerCamel":
			return strcase.ToLowerCamel(s), true
		case "strcase.ToScreamingSnake":
			return strcase.ToScreamingSnake(s), true
		case "strcase.ToKebab":
			return strcase.ToKebab(s), true
		case "strings.ToLower":
			return strings.ToLower(s), true
		case "strings.ToUpper":
			return strings.ToUpper(s), true
		}
		return strings.TrimSpace(s), true
	case "strings.ReplaceAll":
		as, ok := args()
		if !ok || len(as) != 3 {
			return nil, false
		}
		a, ok1 := as[0].(string)
		b, ok2 := as[1].(string)
		c, ok3 := as[2].(string)
		if !ok1 || !ok2 || !ok3 {
			return nil, false
		}
		return strings.ReplaceAll(a, b, c), true
	}
	return nil, false
}

type agreeVariant struct {
	name string
	opts map[string]string
	env  cenv
}

func agreeVariants() []agreeVariant {
	base := cenv{"in.f.Name": "fieldUnderTest", "in.p.Name": "CellPacket", "in.p.CamelName": "CellPacket", "in.k.Name": "keyField", "in.l.Name": "lengthField",
		"in.t.Name": "targetField", "in.g.Name": "secondField", "in.inl.Name": "fieldUnderTest", "in.f.Length": int64(6), "in.f.PadChar": "'0'", "in.f.PadLeft": true,
		"in.f.CheckSumType": "\"crc\"", "in.mp0.Key": "1", "in.mp1.Key": "2", "in.mp2.Key": "3", "in.mp3.Key": "4",
		"in.cfg.JavaPackage": "", "in.cfg.GoPackage": "", "in.cfg.GoModule": ""}
	mk := func(name string, opts map[string]string, cfg cenv) agreeVariant {
		e := cenv{}
		for k, v := range base {
			e[k] = v
		}
		for k, v := range cfg {
			e[k] = v
		}
		return agreeVariant{name, opts, e}
	}
	return []agreeVariant{
		mk("defaults", map[string]string{}, cenv{"in.cfg.LE": false, "in.cfg.ListPrefix": "u16", "in.cfg.StrPrefix": "u16", "in.cfg.PadChar": "' '", "in.cfg.PadLeft": false}),
		mk("le-u32-u8-pad0", map[string]string{"LittleEndian": "true", "ArrayPrefixLenType": "u32", "StringPrefixLenType": "u8", "FixedStringPadChar": "'0'", "FixedStringPadFromLeft": "true"},
			cenv{"in.cfg.LE": true, "in.cfg.ListPrefix": "u32", "in.cfg.StrPrefix": "u8", "in.cfg.PadChar": "'0'", "in.cfg.PadLeft": true}),
	}
}

// agreeObligations: one obligation per (entry, cell, variant).
func agreeObligations(runs []emitRun) (obls []emitObl, skipped int) {
	vs := agreeVariants()
	var reqs []cellReq
	type item struct {
		r   *emitRun
		v   agreeVariant
		id  string
		cpr []string
	}
	var items []item
	for i := range runs {
		r := &runs[i]
		if r.err != "" || len(r.paths) == 0 {
			continue
		}
		if r.cell.Kind == "empty" {
			skipped++ // FieldMap of the symbolic cell still holds the field under test; not the model of any DSL text
			continue
		}
		if r.cell.Kind == "length" {
			skipped++ // the symbolic cell's target field is not a field of the packet; no DSL text builds that model
			continue
		}
		var props []string
		switch r.entry.Dir {
		case "enc":
			props = []string{"C01", "C03", "C07"}
		case "dec":
			props = []string{"C02", "C03", "C07"}
		case "test":
			props = []string{"C17"}
		default:
			props = []string{"C07"}
		}
		if r.entry.Lang == "lua" {
			props = append(props, "C15")
			if r.entry.Dir != "dec" {
				props = []string{"C15"}
			}
		}
		if r.entry.Dir == "test" {
			r2 := r
			for _, v := range vs {
				id := fmt.Sprintf("%s:%s:%s:%s", r2.entry.Lang, r2.entry.Dir, r2.cell.ID, v.name)
				reqs = append(reqs, cellReq{ID: id, Lang: r2.entry.Lang, Dir: r2.entry.Dir, DSL: cellDSL(r2.cell, v.opts)})
				items = append(items, item{r2, v, id, props})
			}
			continue
		}
		switch r.cell.Kind {
		case "checksum":
			props = append(props, "C06")
		case "match":
			props = append(props, "C05")
			if r.cell.LenAttr {
				props = append(props, "C04")
			}
		}
		for _, v := range vs {
			id := fmt.Sprintf("%s:%s:%s:%s", r.entry.Lang, r.entry.Dir, r.cell.ID, v.name)
			reqs = append(reqs, cellReq{ID: id, Lang: r.entry.Lang, Dir: r.entry.Dir, DSL: cellDSL(r.cell, v.opts)})
			items = append(items, item{r, v, id, props})
		}
	}
	res, err := runCells(reqs)
	if err != nil {
		return []emitObl{{Name: "AGREE:harness", Props: []string{"C01", "C02", "C03", "C04", "C05", "C06", "C07"}, OK: false, Detail: err.Error()}}, skipped
	}
	for _, it := range items {
		name := "AGREE:" + it.id
		real, ok := res[it.id]
		if !ok || real.Err != "" {
			obls = append(obls, emitObl{Name: name, Props: it.cpr, OK: false, Detail: "the real emitter could not be run on the concrete cell: " + real.Err})
			continue
		}
		// feasible paths under the concrete environment
		var texts []string
		notEvaluable := ""
		for _, p := range it.r.paths {
			feasible := true
			for _, c := range p.pc {
				v, ok := evalTerm(c, it.v.env)
				if ok {
					if b, _ := v.(bool); !b {
						feasible = false
						break
					}
				}
			}
			if !feasible {
				continue
			}
			v, ok := evalTerm(p.text, it.v.env)
			if !ok {
				notEvaluable = truncate(p.text.String(), 300)
				continue
			}
			texts = append(texts, v.(string))
		}
		if len(texts) == 0 {
			if notEvaluable != "" {
				skipped++
				continue
			}
			obls = append(obls, emitObl{Name: name, Props: it.cpr, OK: false, Detail: "no symbolic path is feasible under the concrete configuration"})
			continue
		}
		match := false
		for _, t := range texts {
			if t == real.Text {
				match = true
			}
		}
		detail := "symbolic text, instantiated, equals the real emitter's text"
		if !match {
			a, b := texts[0], real.Text
			i := 0
			for i < len(a) && i < len(b) && a[i] == b[i] {
				i++
			}
			lo := i - 60
			if lo < 0 {
				lo = 0
			}
			detail = fmt.Sprintf("first difference at offset %d: symbolic %q vs real %q", i, truncate(a[lo:], 160), truncate(b[lo:], 160))
		}
		obls = append(obls, emitObl{Name: name, Props: it.cpr, OK: match, Detail: detail})
	}
	return obls, skipped
}
