package main

// Bounded stand-ins for the formatter properties C09 / C10 (labelled bounded, never counted as
// proved): the real FormatPacketDsl is run on an enumerated corpus of DSL sentences derived from
// the grammar (every alternative / optional element, key lists of length 0..16, comments at token
// boundaries, whitespace re-layouts) and its result is compared with the input:
//   reparse       format(x) is accepted by the parser
//   tokens        same default-channel token texts (optional separators ',' ';' ignored), same order
//   comments      same line comments, same order
//   outputs       if x compiles, format(x) compiles to byte-identical file sets for all six targets
//   error-path    on a syntax error the input is returned unchanged together with an error
//   idempotent    format(format(x)) == format(x)
//   relayout      format(relayout(x)) == format(x) for whitespace re-layouts that keep comments on the
//                 line of the same token
// Bound: the corpus (size reported in the evidence); each failing (class, input) is named by a hash
// of the input, so a known finding never hides a different failing input.

import (
	"bufio"
	"crypto/sha1"
	"encoding/json"
	"fmt"
	"os"
	"os/exec"
	"path/filepath"
	"sort"
	"strings"
)

const standinHarness = `package parser

import (
	"encoding/json"
	"fmt"
	"os"
	"path/filepath"
	"sort"
	"strings"
	"testing"

	"github.com/antlr4-go/antlr/v4"
	gen "github.com/xinchentechnote/fin-protoc/internal/grammar"
	"github.com/xinchentechnote/fin-protoc/internal/model"
)

// goverifCompile: all six generators on the text; ok=false if it does not compile cleanly.
func goverifCompile(dir, text string) (files map[string]string, ok bool) {
	defer func() {
		if r := recover(); r != nil {
			ok = false
		}
	}()
	f := filepath.Join(dir, "compile.tmp")
	os.WriteFile(f, []byte(text), 0644)
	res, err := ParseFile(f)
	m, isModel := res.(*model.BinaryModel)
	if err != nil || !isModel || len(m.SyntaxErrors) != 0 {
		return nil, false
	}
	files = map[string]string{}
	gens := []struct {
		n string
		f func() (map[string][]byte, error)
	}{
		{"Lua", func() (map[string][]byte, error) { return NewLuaWspGenerator(m).Generate(m) }},
		{"Rust", func() (map[string][]byte, error) { return NewRustGenerator(m).Generate(m) }},
		{"Go", func() (map[string][]byte, error) { return NewGoGenerator(m).Generate(m) }},
		{"Java", func() (map[string][]byte, error) { return NewJavaGenerator(m).Generate(m) }},
		{"Python", func() (map[string][]byte, error) { return NewPythonGenerator(m).Generate(m) }},
		{"Cpp", func() (map[string][]byte, error) { return NewCppGenerator(m).Generate(m) }},
	}
	for _, g := range gens {
		out, err := g.f()
		if err != nil {
			files[g.n+"!error"] = err.Error()
			continue
		}
		for k, v := range out {
			files[g.n+"/"+k] = string(v)
		}
	}
	return files, true
}

type goverifStandin struct {
	File  string ` + "`json:\"file\"`" + `
	Class string ` + "`json:\"class\"`" + `
	Note  string ` + "`json:\"note\"`" + `
}

func goverifLex(s string) (toks []string, comments []string) {
	lexer := gen.NewPacketDslLexer(antlr.NewInputStream(s))
	lexer.RemoveErrorListeners()
	for _, t := range lexer.GetAllTokens() {
		switch {
		case t.GetTokenType() == gen.PacketDslLexerLINE_COMMENT:
			comments = append(comments, strings.TrimRight(t.GetText(), " \t\r"))
		case t.GetChannel() != antlr.TokenDefaultChannel:
		case t.GetTokenType() == gen.PacketDslLexerCOMMA || t.GetTokenType() == gen.PacketDslLexerSEMICOLON:
		default:
			toks = append(toks, t.GetText())
		}
	}
	return
}

func goverifRelayouts(s string) []string {
	// token-aware: only the gaps between tokens (comments and literals are tokens) are rewritten.
	// a: every gap becomes one blank or one line break; b: gaps get tabs, blanks, extra blank lines;
	// c: line breaks are added - every token on its own line, a comment staying on the line of the token it follows.
	src := []rune(s)
	lexer := gen.NewPacketDslLexer(antlr.NewInputStream(s))
	lexer.RemoveErrorListeners()
	var a, b, c strings.Builder
	prev := 0
	afterComment := false // blanks after a comment would become part of the comment token
	gap := func(g string) {
		if strings.Contains(g, "\n") {
			a.WriteString("\n")
			if !afterComment {
				b.WriteString(" \t")
			}
			b.WriteString("\n\n\t  ")
		} else if g != "" {
			a.WriteString(" ")
			b.WriteString("  \t ")
		}
	}
	for _, t := range lexer.GetAllTokens() {
		if t.GetTokenType() == antlr.TokenEOF || t.GetStart() < prev || t.GetStop() >= len(src) {
			continue
		}
		g := string(src[prev:t.GetStart()])
		gap(g)
		// c: every token on a line of its own, except that a comment stays on the line of the token it follows
		if prev > 0 || g != "" {
			if t.GetTokenType() == gen.PacketDslLexerLINE_COMMENT && !strings.Contains(g, "\n") {
				c.WriteString(" ")
			} else if prev > 0 {
				c.WriteString("\n")
			}
		}
		a.WriteString(string(src[t.GetStart() : t.GetStop()+1]))
		b.WriteString(string(src[t.GetStart() : t.GetStop()+1]))
		c.WriteString(string(src[t.GetStart() : t.GetStop()+1]))
		prev = t.GetStop() + 1
		afterComment = t.GetTokenType() == gen.PacketDslLexerLINE_COMMENT
	}
	if prev < len(src) {
		gap(string(src[prev:]))
	}
	c.WriteString("\n")
	return []string{a.String(), b.String(), c.String()}
}

func TestGoverifStandin(t *testing.T) {
	dir := os.Getenv("GOVERIF_STANDIN_DIR")
	if dir == "" {
		t.Skip()
	}
	files, _ := filepath.Glob(filepath.Join(dir, "*.dsl"))
	sort.Strings(files)
	out, _ := os.Create(filepath.Join(dir, "standin.jsonl"))
	defer out.Close()
	null, _ := os.OpenFile(os.DevNull, os.O_WRONLY, 0)
	os.Stdout = null
	emit := func(f, class, note string) {
		b, _ := json.Marshal(goverifStandin{filepath.Base(f), class, note})
		out.Write(append(b, '\n'))
	}
	for _, f := range files {
		src, _ := os.ReadFile(f)
		x := string(src)
		func() {
			defer func() {
				if r := recover(); r != nil {
					emit(f, "panic", fmt.Sprint(r))
				}
			}()
			y, err := FormatPacketDsl(x)
			if err != nil {
				if y != x {
					emit(f, "error-path", "input not returned unchanged on a syntax error")
				}
				emit(f, "syntax-error", "")
				return
			}
			emit(f, "formatted", "")
			y2, err2 := FormatPacketDsl(y)
			if err2 != nil {
				emit(f, "reparse", err2.Error())
				return
			}
			tx, cx := goverifLex(x)
			ty, cy := goverifLex(y)
			if strings.Join(tx, "\x00") != strings.Join(ty, "\x00") {
				emit(f, "tokens", fmt.Sprintf("%d tokens in, %d out", len(tx), len(ty)))
			}
			if strings.Join(cx, "\x00") != strings.Join(cy, "\x00") {
				emit(f, "comments", fmt.Sprintf("%d comments in, %d out", len(cx), len(cy)))
			}
			if y2 != y {
				emit(f, "idempotent", "format(format(x)) != format(x)")
			}
			if fx, ok := goverifCompile(dir, x); ok {
				emit(f, "compiled", "")
				fy, oky := goverifCompile(dir, y)
				switch {
				case !oky:
					emit(f, "outputs", "the input compiles, the formatted text does not")
				case len(fx) != len(fy):
					emit(f, "outputs", fmt.Sprintf("%d files from the input, %d from the formatted text", len(fx), len(fy)))
				default:
					for k, v := range fx {
						if fy[k] != v {
							emit(f, "outputs", "generated file "+k+" differs")
							break
						}
					}
				}
			}
			for i, r := range goverifRelayouts(x) {
				yr, errr := FormatPacketDsl(r)
				if errr != nil || yr != y {
					emit(f, "relayout", fmt.Sprintf("relayout %d formats differently", i))
				}
			}
		}()
	}
}
`

type standinOutcome struct {
	File  string `json:"file"`
	Class string `json:"class"`
	Note  string `json:"note"`
}

func inputID(s string) string {
	h := sha1.Sum([]byte(s))
	return fmt.Sprintf("%x", h[:5])
}

// formatterCorpus: grammar sentences, comment variants, key lists of every length 0..16.
func formatterCorpus(e *Engine, seed int) []string {
	seen := map[string]bool{}
	var out []string
	add := func(s string) {
		if !seen[s] {
			seen[s] = true
			out = append(out, s)
		}
	}
	for _, t := range faultTemplates {
		add(t)
	}
	base := grammarSentences(e.tree)
	for _, s := range base {
		add(s)
	}
	// key lists
	for n := 1; n <= 16; n++ {
		var ks, ss []string
		for i := 0; i < n; i++ {
			ks = append(ks, fmt.Sprint(i+1))
			ss = append(ss, fmt.Sprintf("\"k%d\"", i))
		}
		add("root packet P { u8 k, match k as b { [" + strings.Join(ks, ", ") + "] : A, }, }\npacket A { u8 x, }")
		add("root packet P { string k, match k as b { [" + strings.Join(ss, ",") + "] : A, 99 : A }, }\npacket A { u8 x, }")
		// a comment on the line of the pair, and the same list split by hand over two lines
		add("root packet P { u8 k, match k as b {\n [" + strings.Join(ks, ", ") + "] : A, // after the pair\n 99 : A, // second\n }, }\npacket A { u8 x, }")
		if n >= 2 {
			add("root packet P { u8 k, match k as b {\n // before the pair\n [" + strings.Join(ks[:n/2], ", ") + ",\n " + strings.Join(ks[n/2:], ", ") + "] : A, // after the pair\n }, }\npacket A { u8 x, }")
		}
	}
	// comments at token boundaries: own-line before token i, same-line after token i
	for bi, s := range base {
		toks := strings.Fields(s)
		if len(toks) < 3 {
			continue
		}
		nPos := 4
		if thoroughTier {
			nPos = len(toks) // a comment at every token boundary of every sentence
		}
		for k := 0; k < nPos; k++ {
			i := (bi*7 + k*5 + seed) % len(toks)
			if thoroughTier {
				i = k
			}
			var own, same []string
			for j, t := range toks {
				if j == i {
					own = append(own, fmt.Sprintf("\n// own %d\n", k))
				}
				own = append(own, t)
				same = append(same, t)
				if j == i {
					same = append(same, fmt.Sprintf("// same %d\n", k))
				}
			}
			add(strings.Join(own, " "))
			add(strings.Join(same, " "))
		}
	}
	// hand-written comment / doc string placements
	for _, s := range []string{
		"// head\npacket P { // after brace\n u8 x, // after field\n // own line\n u8 y,\n // before close\n}\n// tail\n",
		"MetaData M { // c1\n u8 a `doc a`, // c2\n // c3\n b c `doc c`, }\npacket P { a, repeat c x, }",
		// basic-typed and identifier-typed MetaData entries interleaved: the author's order is kept
		"MetaData M { u16 Code `c`, Code Other `o`, u32 Qty, Other Third, char[4] Name, Name Alias `a`, string Text, }\npacket P { Other o, Third t, Alias al, }",
		"MetaData M { u8 a, a b, u8 c, }\nMetaData N { c d, string e, d f, }\npacket P { b x, f y, }",
		"options { // o1\n LittleEndian = true; // o2\n // o3\n}\npacket P { u8 x, }",
		"packet P { // c0\n @leftPad('0') // c1\n char[4] x, // c2\n }",
		"root packet P { u8 k, match k as b { // m0\n 1 : A, // m1\n // m2\n 2 : Bb, // m3\n }, }\npacket A { }\npacket Bb { }",
		"packet P { Foo x `doc of x`, repeat Foo `doc only`, Bar, }",
		"packet P { In { u8 a, // inner\n }, repeat In2 { string s, }, }",
		"packet P { u16 l @lengthOf(b) `len doc`, c @calculatedFrom(\"crc\") `sum doc`, u32 d @calculatedFrom(\"x\"), string b, }",
		"packet P { u8 a `line one\nline two`, }",
		// a documentation literal with a line break on every declaration that can carry one
		"MetaData M { u8 m `meta\ndoc`, m r `ref\ndoc`, }\nroot packet P { u16 l @lengthOf(b) `len\ndoc`, string b `dyn\ndoc`, u32 c @calculatedFrom(\"crc\") `sum\ndoc`, Foo x `obj\ndoc`, repeat Foo `rep\ndoc`, char[4] f `fix\ndoc`, }\npacket Foo { u8 a `basic\ndoc`, In { u8 q `inner\ndoc`, m mm `used\ndoc`, }, }",
		"root packet P { @lengthOf(b) u16 l `len\n  doc`, string b, @calculatedFrom(\"crc\") u32 c `sum\n\tdoc`, }",
		"root packet P { string k, match k as b { [\"a\", 1, \"b\", 2] : A, }, }\npacket A { }",
		"packet   P   {   u8   x  ,   }   packet Q{u8 y,}",
	} {
		add(s)
	}
	return out
}

// thoroughTier: set by the check command; widens the enumerated corpora.
var thoroughTier bool

var standinRan bool
var standinOut map[string][]standinOutcome // class -> outcomes
var standinInputs map[string]string        // file -> input
var standinCount int

func runFormatterStandin(e *Engine, seed int) error {
	if standinRan {
		return nil
	}
	standinRan = true
	standinOut = map[string][]standinOutcome{}
	standinInputs = map[string]string{}
	dir, err := os.MkdirTemp("/var/tmp", "goverif-standin-")
	if err != nil {
		return err
	}
	defer os.RemoveAll(dir)
	corpus := formatterCorpus(e, seed)
	standinCount = len(corpus)
	for i, in := range corpus {
		name := fmt.Sprintf("s%04d.dsl", i)
		standinInputs[name] = in
		os.WriteFile(filepath.Join(dir, name), []byte(in), 0644)
	}
	h := filepath.Join(dir, "zz_goverif_standin_test.go")
	os.WriteFile(h, []byte(standinHarness), 0644)
	ov := map[string]interface{}{"Replace": map[string]string{filepath.Join(repoRoot, "internal/parser/zz_goverif_standin_test.go"): h}}
	ovb, _ := json.Marshal(ov)
	ovf := filepath.Join(dir, "overlay.json")
	os.WriteFile(ovf, ovb, 0644)
	cmd := exec.Command("go", "test", "-overlay", ovf, "-vet=off", "-count=1", "-timeout", "300s", "-run", "^TestGoverifStandin$", "./internal/parser/")
	cmd.Dir = repoRoot
	cmd.Env = append(os.Environ(), "GOVERIF_STANDIN_DIR="+dir, "GOFLAGS=-mod=mod", "GOPROXY=off")
	outb, err := cmd.CombinedOutput()
	f, ferr := os.Open(filepath.Join(dir, "standin.jsonl"))
	if ferr != nil {
		return fmt.Errorf("stand-in harness did not run: %v\n%s", err, truncate(string(outb), 2000))
	}
	defer f.Close()
	sc := bufio.NewScanner(f)
	sc.Buffer(make([]byte, 1<<20), 1<<24)
	for sc.Scan() {
		var o standinOutcome
		if json.Unmarshal(sc.Bytes(), &o) == nil {
			standinOut[o.Class] = append(standinOut[o.Class], o)
		}
	}
	return nil
}

// standinObligations: failing (class, input) pairs of the given classes, named BOUNDED:<prop>:<class>:<input id>.
func standinFailures(prop string, classes []string) (names []string, detail map[string]standinOutcome) {
	detail = map[string]standinOutcome{}
	for _, c := range classes {
		for _, o := range standinOut[c] {
			n := fmt.Sprintf("BOUNDED:%s:%s:%s", prop, c, inputID(standinInputs[o.File]))
			if _, dup := detail[n]; !dup {
				names = append(names, n)
				detail[n] = o
			}
		}
	}
	sort.Strings(names)
	return
}
