package main

import (
	"fmt"
	"sort"
	"strings"
	"time"
)

type emitObl struct {
	Name   string
	Props  []string
	OK     bool
	Detail string
	Replay map[string]interface{} // set by checks that ran the real code themselves (bounded obligations)
}

func firstOccurrenceOrder(labels []string) string {
	seen := map[string]bool{}
	var out []string
	for _, l := range labels {
		for _, part := range strings.Split(l, "+") {
			if part == "CheckSum" {
				continue // the algorithm name is an encoder-only argument
			}
			if !seen[part] {
				seen[part] = true
				out = append(out, part)
			}
		}
	}
	return strings.Join(out, ",")
}

// pruneInfeasible drops result paths whose path condition is unsatisfiable (decided by SMT); it is
// applied to the runs that have a failing obligation before the failure is reported.
func pruneInfeasible(r *emitRun) {
	type res struct {
		i  int
		ok bool
	}
	ch := make(chan res, len(r.paths))
	scripts := make([]string, len(r.paths))
	for i, p := range r.paths {
		scripts[i] = smtQuery(p.pc, False, nil)
	}
	sem := make(chan bool, 16)
	for i := range r.paths {
		go func(i int) {
			sem <- true
			v := solve(scripts[i], 5*time.Second)
			<-sem
			ch <- res{i, v.Verdict != "unsat"}
		}(i)
	}
	keep := make([]bool, len(r.paths))
	for range r.paths {
		x := <-ch
		keep[x.i] = x.ok
	}
	var out []emitPath
	for i, p := range r.paths {
		if keep[i] {
			out = append(out, p)
		}
	}
	r.paths = out
}

// evalEmit computes the EMIT obligations of all runs; runs with a failing obligation are
// re-evaluated after pruning infeasible paths.
func (e *Engine) evalEmit(runs []emitRun) []emitObl {
	first := e.evalEmitOnce(runs)
	bad := map[string]bool{}
	for _, o := range first {
		if !o.OK {
			parts := strings.Split(o.Name, ":")
			if len(parts) >= 3 {
				bad[parts[1]] = true
			}
		}
	}
	changed := false
	for i := range runs {
		r := &runs[i]
		if r.err != "" || r.pruned {
			continue
		}
		failing := false
		for _, o := range first {
			if !o.OK && (strings.HasPrefix(o.Name, fmt.Sprintf("EMIT:%s:%s:%s:", r.entry.Lang, r.entry.Dir, r.cell.ID)) || strings.HasPrefix(o.Name, fmt.Sprintf("EMIT:%s:sym:%s", r.entry.Lang, r.cell.ID))) {
				failing = true
			}
		}
		if failing {
			pruneInfeasible(r)
			r.pruned = true
			changed = true
		}
	}
	if !changed {
		return first
	}
	return e.evalEmitOnce(runs)
}

func (e *Engine) evalEmitOnce(runs []emitRun) []emitObl {
	var obls []emitObl
	add := func(name string, props []string, ok bool, detail string) {
		obls = append(obls, emitObl{Name: name, Props: props, OK: ok, Detail: detail})
	}
	LE := Sym("in.cfg.LE", SBool)
	type key struct{ lang, cell string }
	sigs := map[key]map[string]map[string]bool{} // lang,cell -> dir -> set of first-occurrence orders
	luaDecs, luaDefs := map[string]emitRun{}, map[string]emitRun{}
	for _, r := range runs {
		base := fmt.Sprintf("EMIT:%s:%s:%s", r.entry.Lang, r.entry.Dir, r.cell.ID)
		cprops := []string{"C07"}
		switch r.entry.Dir {
		case "enc":
			cprops = append(cprops, "C01", "C03")
		case "dec":
			cprops = append(cprops, "C02", "C03")
		}
		switch r.cell.Kind {
		case "length":
			cprops = append(cprops, "C04")
		case "checksum":
			cprops = append(cprops, "C06")
		case "match":
			cprops = append(cprops, "C05")
			if r.cell.LenAttr {
				cprops = append(cprops, "C04")
			}
		}
		if r.entry.Dir == "test" {
			cprops = []string{"C17"}
		}
		if r.entry.Lang == "lua" {
			cprops = append(cprops, "C15")
			if r.entry.Dir != "dec" {
				cprops = []string{"C15"}
			}
		}
		if r.err != "" {
			add(base+":run", cprops, false, "emitter could not be executed symbolically: "+r.err)
			continue
		}
		if len(r.paths) == 0 {
			add(base+":run", cprops, false, "no path of the emitter returns a text")
			continue
		}
		if r.entry.Dir == "test" {
			obls = append(obls, testCellObligations(base, r)...)
			continue
		}
		if r.entry.Lang == "lua" {
			for _, o := range luaCellObligations(base, r) {
				obls = append(obls, o)
			}
			if r.entry.Dir != "dec" || r.cell.Kind == "empty" {
				if r.entry.Dir == "fielddef" {
					luaDefs[r.cell.ID] = r
				}
				continue
			}
			luaDecs[r.cell.ID] = r
		}
		// name / marker
		nameOK, markerOK := true, true
		var markerHit string
		deps := map[string]bool{}
		var leT, leF []string
		for _, p := range r.paths {
			ss := symsOf(p.text)
			want := "in.f.Name"
			if r.cell.Kind == "inline" {
				// inline objects are addressed through their packet name in some targets
				if !ss["in.f.Name"] && !ss["in.inl.Name"] {
					nameOK = false
				}
			} else if !ss[want] && !(r.entry.Lang == "lua" && r.cell.Kind == "match") {
				// (the dissector dispatches on the key and never names the match field itself)
				nameOK = false
			}
			lt := strings.ToLower(literalText(p.text))
			for _, w := range markerWords {
				if strings.Contains(lt, w) {
					markerOK = false
					markerHit = w
				}
			}
			for s := range ss {
				if l := cfgLabel(s); l != "" {
					deps[l] = true
				}
			}
			k := p.text.key
			switch {
			case pcHas(p.pc, LE):
				leT = append(leT, k)
			case pcHas(p.pc, Not(LE)):
				leF = append(leF, k)
			default:
				leT = append(leT, k)
				leF = append(leF, k)
			}
			if sigs[key{r.entry.Lang, r.cell.ID}] == nil {
				sigs[key{r.entry.Lang, r.cell.ID}] = map[string]map[string]bool{}
			}
			m := sigs[key{r.entry.Lang, r.cell.ID}]
			if m[r.entry.Dir] == nil {
				m[r.entry.Dir] = map[string]bool{}
			}
			m[r.entry.Dir][firstOccurrenceOrder(atomLabels(p.text))] = true
		}
		if r.entry.Dir != "dispatch" {
			add(base+":name", cprops, nameOK, "an atom derived from the field's own name must occur in every path (field not silently skipped)")
		}
		add(base+":marker", []string{"C07"}, markerOK, "placeholder / unsupported marker in emitted text: "+markerHit)
		// C07 owns the completeness obligations (name, marker) only
		var np []string
		for _, p := range cprops {
			if p != "C07" {
				np = append(np, p)
			}
		}
		nameProps := cprops
		cprops = np
		_ = nameProps
		if r.entry.Dir == "dispatch" {
			all := map[string]bool{}
			for _, p := range r.paths {
				for s := range symsOf(p.text) {
					all[s] = true
				}
			}
			if r.entry.Lang != "rust" {
				add(base+":pair", []string{"C05"}, all["in.mp0.Key"] && all["in.mp1.Key"] && all["in.mp2.Key"] && all["in.mp3.Key"], "every key of the match table must reach the dispatch table")
			} else {
				// payload enum: one variant per distinct target packet (two keys select packet A in this cell)
				ok := true
				for _, p := range r.paths {
					lt := literalText(p.text)
					wantB := 1
					if r.cell.Single {
						wantB = 0
					}
					if strings.Count(lt, "A(A)") != 1 || strings.Count(lt, "B(B)") != wantB {
						ok = false
					}
				}
				add(base+":variants", []string{"C05", "C07"}, ok, "the payload enum must declare exactly one variant per distinct target packet")
			}
			continue
		}
		if r.cell.Kind == "order" {
			// both fields occur, the first declared one first (encode, decode and member declarations)
			ok, detail := true, ""
			for _, p := range r.paths {
				t := flatText(p.text)
				i, j := strings.Index(t, "in.f.Name"), strings.Index(t, "in.g.Name")
				if i < 0 || j < 0 || j < i {
					ok = false
					detail = fmt.Sprintf("first occurrence of the first field at %d, of the second field at %d", i, j)
				}
			}
			add(base+":order", cprops, ok, "the steps of two fields come in declaration order: "+detail)
		}
		if r.entry.Dir == "member" {
			continue
		}
		must, mustNot, leMust, leMustNot := expectedDeps(r.cell, r.entry.Dir)
		if r.entry.Lang == "lua" {
			// the dissector shows raw bytes: padding is not interpreted; nested packets are dissected inline
			if r.cell.Kind == "inline" || r.cell.Kind == "object" {
				leMustNot = false
			}
		}
		if r.cell.Kind == "fixed" && r.entry.Lang != "lua" {
			if r.cell.FieldPad {
				must = append(must, "FieldPad")
				mustNot = append(mustNot, "CfgPad")
			} else {
				must = append(must, "CfgPad")
				mustNot = append(mustNot, "FieldPad")
			}
		}
		var missing, extra []string
		for _, m := range must {
			if !deps[m] {
				missing = append(missing, m)
			}
		}
		for _, m := range mustNot {
			if deps[m] {
				extra = append(extra, m)
			}
		}
		add(base+":dep", cprops, len(missing) == 0 && len(extra) == 0, fmt.Sprintf("depends on %v; missing %v; forbidden %v", setKeys(deps), missing, extra))
		sort.Strings(leT)
		sort.Strings(leF)
		differs := strings.Join(leT, "|") != strings.Join(leF, "|")
		if leMust {
			add(base+":le", cprops, differs, "emitted text must differ between LittleEndian=true and false")
		}
		if leMustNot {
			add(base+":le", cprops, !differs, "emitted text must not depend on LittleEndian")
		}
		if leMust {
			// every site of a byte-order dependent step must switch: if a word of the big-endian text
			// (an accessor such as write_u16, an atom derived from the field) is replaced at one of its
			// positions in the little-endian text, it must be replaced at all of them (a forgotten
			// fallback / second write site would keep the big-endian accessor)
			ok, detail := true, "no pair of LittleEndian / BigEndian paths with the same shape"
			for _, pt := range r.paths {
				if !pcHas(pt.pc, LE) {
					continue
				}
				for _, pf := range r.paths {
					if !pcHas(pf.pc, Not(LE)) {
						continue
					}
					at, af := emitWords(pt.text), emitWords(pf.text)
					if len(at) != len(af) {
						continue
					}
					if detail != "" && ok {
						detail = ""
					}
					total, repl := map[string]int{}, map[string]int{}
					for i := range af {
						total[af[i]]++
						if at[i] != af[i] {
							repl[af[i]]++
						}
					}
					for w, n := range repl {
						if n < total[w] {
							ok = false
							detail = fmt.Sprintf("%q of the big-endian text is replaced at %d of its %d positions in the little-endian text", w, n, total[w])
						}
					}
				}
			}
			add(base+":le-sites", cprops, ok, detail)
		}
		if r.cell.Kind == "match" && r.entry.Dir == "dec" && (r.entry.Lang == "rust" || r.entry.Lang == "lua") {
			all := map[string]bool{}
			for _, p := range r.paths {
				for s := range symsOf(p.text) {
					all[s] = true
				}
			}
			ok := all["in.mp0.Key"] && all["in.mp1.Key"] && all["in.mp2.Key"] && all["in.mp3.Key"]
			add(base+":pair", []string{"C05", "C02", "C07"}, ok, "every key of the match table must reach the dispatch code")
		}
		if r.cell.LenAttr && r.entry.Dir == "enc" {
			all := map[string]bool{}
			for _, p := range r.paths {
				for s := range symsOf(p.text) {
					all[s] = true
				}
			}
			add(base+":backpatch", []string{"C04"}, all["in.l.Name"], "the back-patch must address the length field by its name")
			// the back-patch (the last line that mentions the length field) is written in the configured
			// byte order: that line differs between a little-endian and a big-endian path of the same shape
			ok, detail := false, "no pair of LittleEndian / BigEndian paths with the same number of lines"
			for _, pt := range r.paths {
				if !pcHas(pt.pc, LE) || ok {
					continue
				}
				for _, pf := range r.paths {
					if !pcHas(pf.pc, Not(LE)) {
						continue
					}
					lt, lf := strings.Split(flatText(pt.text), "\n"), strings.Split(flatText(pf.text), "\n")
					if len(lt) != len(lf) {
						continue
					}
					last := -1
					for i, l := range lf {
						if strings.Contains(l, "in.l.Name") {
							last = i
						}
					}
					if last < 0 {
						detail = "no line mentions the length field"
						continue
					}
					if lt[last] != lf[last] {
						ok = true
					} else {
						ok = false
						detail = "the back-patch line is the same for both byte orders: " + truncate(strings.TrimSpace(lf[last]), 200)
					}
					break
				}
			}
			if ok {
				detail = "back-patch line differs between the byte orders"
			}
			add(base+":backpatch-le", []string{"C04"}, ok, detail)
			// the length is measured over the target's own encoding: some line that mentions the length
			// field also mentions the target field (its start / end marks or its length variable)
			okT := true
			for _, pt := range r.paths {
				found := false
				for _, l := range strings.Split(flatText(pt.text), "\n") {
					if strings.Contains(l, "in.l.Name") && strings.Contains(l, "in.f.Name") {
						found = true
					}
				}
				if !found {
					okT = false
				}
			}
			// the back-patch is unconditional: the last line that mentions the length field sits at the nesting
			// depth of the first line of the step (not inside the `if target != nil` / `is not None` block that
			// guards the target's own encoding) - otherwise an absent target leaves the caller's stored value
			// on the wire
			okG, detG := true, ""
			for _, pt := range r.paths {
				lines := strings.Split(flatText(pt.text), "\n")
				last, first := -1, -1
				for i, l := range lines {
					if first < 0 && strings.Contains(l, "in.f.Name") {
						first = i // the first statement of the step that names the target (position / start mark)
					}
					if strings.Contains(l, "in.l.Name") {
						last = i
					}
				}
				if last < 0 || first < 0 || last <= first {
					continue
				}
				if r.entry.Lang == "python" {
					ind := func(l string) int { return len(l) - len(strings.TrimLeft(l, " \t")) }
					if ind(lines[last]) > ind(lines[first]) {
						okG, detG = false, "the back-patch line is indented deeper than the target's start mark: "+truncate(strings.TrimSpace(lines[last]), 160)
					}
					continue
				}
				depthAt := func(n int) int {
					d := 0
					for i := 0; i < n; i++ {
						d += strings.Count(lines[i], "{") - strings.Count(lines[i], "}")
					}
					lead := strings.TrimSpace(lines[n])
					for strings.HasPrefix(lead, "}") { // a closing brace leading the line closes before it
						d--
						lead = strings.TrimSpace(lead[1:])
					}
					return d
				}
				if db, df := depthAt(last), depthAt(first); db > df {
					okG, detG = false, fmt.Sprintf("the back-patch line is nested %d block(s) deeper than the target's start mark: %s", db-df, truncate(strings.TrimSpace(lines[last]), 160))
				}
			}
			add(base+":backpatch-unguarded", []string{"C04"}, okG, detG)
			add(base+":backpatch-target", []string{"C04"}, okT, "no line of the emitted text relates the length field to the target field: the length is not measured over the target's own encoding")
		}
	}
	obls = append(obls, luaDefinesObligations(luaDecs, luaDefs)...)
	obls = append(obls, testRepeatObligations(runs)...)
	// cross-cell predicates
	byID := map[string]*emitRun{}
	for i := range runs {
		r := &runs[i]
		byID[r.entry.Lang+":"+r.entry.Dir+":"+r.cell.ID] = r
	}
	count := func(r *emitRun, what string) (int, int) { // min and max number of mentions over the paths
		lo, hi := -1, 0
		for _, p := range r.paths {
			n := strings.Count(flatText(p.text), what)
			if lo < 0 || n < lo {
				lo = n
			}
			if n > hi {
				hi = n
			}
		}
		return lo, hi
	}
	for i := range runs {
		r := &runs[i]
		if r.err != "" || len(r.paths) == 0 {
			continue
		}
		base := fmt.Sprintf("EMIT:%s:%s:%s", r.entry.Lang, r.entry.Dir, r.cell.ID)
		if r.cell.Single && (r.entry.Dir == "enc" || r.entry.Dir == "dec") {
			// a table whose alternatives all name one packet is dispatched like any other: the key field
			// is mentioned as often as for a table with two target packets
			if ref := byID[r.entry.Lang+":"+r.entry.Dir+":match"]; ref != nil && ref.err == "" && len(ref.paths) > 0 {
				lo, hi := count(r, "in.k.Name")
				rlo, rhi := count(ref, "in.k.Name")
				add(base+":key-uses", []string{"C05"}, lo == rlo && hi == rhi, fmt.Sprintf("the key field is mentioned %d..%d times for a single-target table, %d..%d times for a two-target table", lo, hi, rlo, rhi))
			}
		}
		if r.cell.Alias != "" && r.entry.Dir != "dispatch" {
			// the long spelling of the type yields the same text as the short one
			c := r.cell
			c.Alias = ""
			refID := c.Kind + ":" + c.Typ
			if c.Repeat {
				refID += ":repeat"
			}
			props := []string{"C08"}
			switch r.cell.Kind {
			case "checksum":
				props = append(props, "C06")
			case "length":
				props = append(props, "C04")
			}
			switch r.entry.Dir {
			case "enc":
				props = append(props, "C01")
			case "dec":
				props = append(props, "C02")
			}
			if ref := byID[r.entry.Lang+":"+r.entry.Dir+":"+refID]; ref != nil && ref.err == "" {
				var a, b []string
				for _, p := range r.paths {
					a = append(a, flatText(p.text))
				}
				for _, p := range ref.paths {
					b = append(b, flatText(p.text))
				}
				sort.Strings(a)
				sort.Strings(b)
				add(base+":alias", props, strings.Join(a, "\x00") == strings.Join(b, "\x00"), "the emitted text differs between the spellings "+r.cell.Alias+" and "+r.cell.Typ+" of the field's type")
			}
		}
	}
	// encode / decode symmetry
	var ks []key
	for k := range sigs {
		ks = append(ks, k)
	}
	sort.Slice(ks, func(i, j int) bool { return ks[i].lang+ks[i].cell < ks[j].lang+ks[j].cell })
	for _, k := range ks {
		m := sigs[k]
		if m["enc"] == nil || m["dec"] == nil {
			continue
		}
		a, b := setKeys(m["enc"]), setKeys(m["dec"])
		add(fmt.Sprintf("EMIT:%s:sym:%s", k.lang, k.cell), []string{"C01", "C02", "C03"}, strings.Join(a, "|") == strings.Join(b, "|"),
			fmt.Sprintf("order of configuration atoms: encode %v, decode %v", a, b))
	}
	return obls
}

func cmdEmit(args []string) {
	e := newEngine()
	e.runInits()
	e.cfg.Kinds = map[string]bool{}
	e.cfg.Modular = false
	e.cfg.AllowRecursion = true
	e.cfg.ConcreteMaps = false
	e.cfg.MaxDepth = 40
	e.cfg.MaxSteps = 100000 // largest cell on the unchanged tree needs < 10 000 basic blocks
	filter := ""
	if len(args) > 0 {
		filter = args[0]
	}
	var runs []emitRun
	for _, en := range emitEntries() {
		for _, c := range emitCells() {
			if filter != "" && !strings.Contains(en.Lang+":"+en.Dir+":"+c.ID, filter) {
				continue
			}
			if en.Dir == "dispatch" && c.Kind != "match" {
				continue
			}
			if c.Kind == "empty" && !(en.Lang == "lua" && (en.Dir == "dec" || en.Dir == "sub")) {
				continue
			}
			if c.Kind == "order" && (en.Dir == "dispatch" || en.Lang == "rust") {
				continue // Rust's entries are per field; the order of its steps is decided by the caller loop
			}
			t0 := time.Now()
			r := e.runEmit(en, c)
			runs = append(runs, r)
			if d := time.Since(t0).Seconds(); d > 2 {
				fmt.Printf("SLOW %s %s %s %.1fs paths=%d\n", en.Lang, en.Dir, c.ID, d, len(r.paths))
			}
			if len(args) > 1 {
				fmt.Printf("== %s %s %s err=%q paths=%d\n", en.Lang, en.Dir, c.ID, r.err, len(r.paths))
				for _, p := range r.paths {
					if args[1] == "flat" {
						var pcs []string
						for _, c := range p.pc {
							if len(symsOf(c)) > 0 {
								pcs = append(pcs, truncate(c.String(), 120))
							}
						}
						fmt.Printf("   PC %s\n   FLAT\n%s\n", strings.Join(pcs, " && "), flatText(p.text))
						continue
					}
					fmt.Printf("   TEXT %s\n", truncate(p.text.String(), 1500))
				}
			}
		}
	}
	n, bad := 0, 0
	for _, o := range e.evalEmit(runs) {
		n++
		if !o.OK {
			bad++
			fmt.Printf("FAIL %s %v %s\n", o.Name, o.Props, o.Detail)
		}
	}
	fmt.Printf("emit obligations=%d failed=%d runs=%d max-steps=%d\n", n, bad, len(runs), emitMaxSteps)
}

// emitWords: the emitted text as a sequence of words (identifier-like runs of the literal parts, and
// each non-literal atom as one word).
func emitWords(t *Term) []string {
	var out []string
	for _, a := range strAtoms(t) {
		if a.K != KStrLit {
			out = append(out, a.key)
			continue
		}
		cur := ""
		for _, r := range a.Name {
			if r == '_' || r >= '0' && r <= '9' || r >= 'a' && r <= 'z' || r >= 'A' && r <= 'Z' {
				cur += string(r)
				continue
			}
			if cur != "" {
				out = append(out, cur)
				cur = ""
			}
		}
		if cur != "" {
			out = append(out, cur)
		}
	}
	return out
}

// flatText: the emitted text with literal parts verbatim and every other atom as <key>; constant
// strings.ReplaceAll wrappers (re-indentation) are applied.
func flatText(t *Term) string {
	switch {
	case t.K == KStrLit:
		return t.Name
	case t.isOp("concat"):
		var b strings.Builder
		for _, a := range t.Args {
			b.WriteString(flatText(a))
		}
		return b.String()
	case t.K == KApp && t.Name == "strings.ReplaceAll" && len(t.Args) == 3 && t.Args[1].K == KStrLit && t.Args[2].K == KStrLit:
		return strings.ReplaceAll(flatText(t.Args[0]), t.Args[1].Name, t.Args[2].Name)
	}
	return "<" + t.String() + ">"
}
