package main

// EMIT obligations (properties C01..C07): what the generators decide about the emitted code.
//
// For every target language, direction (encode / decode / member) and "cell" (field kind x repeat
// x type, with the attribute values, the names and the whole Configuration symbolic) the REAL
// packet-level emitter is executed symbolically on a one-field packet. Each feasible path yields
// the emitted text as a concatenation of literal atoms and symbolic atoms whose free symbols say
// which model / configuration attributes flow into the text. Predicates over these normal forms
// are the obligations:
//   total   the step is not empty                                    (no silently skipped field)
//   marker  no literal atom contains a placeholder / "unsupported" marker
//   name    an atom derived from the field's own name occurs
//   dep     the set of configuration attributes the text depends on is what the property dictates
//           (byte order, string prefix, array prefix, length, effective padding, checksum name)
//   le      the text differs between LittleEndian = true and false exactly when it must
//   sym     encode and decode steps of one language have the same sequence of configuration atoms
//   pair    every (key, value) of a match table reaches the dispatch code, in order
// The loop-free executions range over a full symbolic domain: complete for the cell, not bounded.

import (
	"fmt"
	"go/types"
	"sort"
	"strings"

	"golang.org/x/tools/go/ssa"
)

const modelPkgPath = repoMod + "/internal/model"
const parserPkgPath = repoMod + "/internal/parser"

type emitCell struct {
	ID       string
	Kind     string // basic fixed dynamic object inline match length checksum
	Typ      string // canonical scalar type for basic / length / checksum
	Repeat   bool
	FieldPad bool   // fixed string with its own padding
	LenAttr  bool   // the field is the target of a length-of field
	Single   bool   // match table with a single target packet
	Alias    string // the type is spelled like this in the model (Typ is its canonical name)
}

type emitEntry struct {
	Lang string
	Dir  string // enc dec member
	Fn   string // ssa function name (full)
	Args []string
}

func emitEntries() []emitEntry {
	P := "(" + parserPkgPath
	return []emitEntry{
		{"go", "enc", P + ".GoGenerator).generateEncodingCode", []string{"g", "p"}},
		{"go", "dec", P + ".GoGenerator).generateDecodingCode", []string{"g", "p"}},
		{"go", "member", P + ".GoGenerator).generateStructCode", []string{"g", "p"}},
		{"rust", "enc", P + ".RustGenerator).EncodeField", []string{"g", "p", "f"}},
		{"rust", "dec", P + ".RustGenerator).DecodeField", []string{"g", "pname", "f"}},
		{"java", "enc", P + ".JavaGenerator).GenerateEncode", []string{"g", "p"}},
		{"java", "dec", P + ".JavaGenerator).GenerateDecode", []string{"g", "p"}},
		{"python", "enc", P + ".PythonGenerator).generateEncodeMethod", []string{"g2", "p"}},
		{"python", "dec", P + ".PythonGenerator).generateDecodeMethod", []string{"g2", "p"}},
		{"cpp", "enc", P + ".CppGenerator).generateEncode", []string{"g2", "p"}},
		{"cpp", "dec", P + ".CppGenerator).generateDecode", []string{"g2", "p"}},
		{"lua", "dec", P + ".LuaWspGenerator).generateMainDissector", []string{"g", "p"}},
		{"lua", "sub", P + ".LuaWspGenerator).generateSubDissector", []string{"g", "pname", "p"}},
		{"lua", "fielddef", P + ".LuaWspGenerator).generateFieldDefinitionFromPacket", []string{"g", "mdl", "p"}},
		{"go", "test", P + ".GoGenerator).generateNewInstance", []string{"g", "orig", "p"}},
		{"rust", "test", P + ".RustGenerator).generateUnitTestCode", []string{"g", "p"}},
		{"java", "test", P + ".JavaGenerator).GenerateTestMethod", []string{"g", "p"}},
		{"python", "test", P + ".PythonGenerator).generateTestCodeForPacket", []string{"g2", "p"}},
		{"cpp", "test", P + ".CppGenerator).generateUnitestForPacket", []string{"g2", "p"}},
		{"go", "dispatch", P + ".GoGenerator).generateInit", []string{"g", "p", "mf"}},
		{"java", "dispatch", P + ".JavaGenerator).GenerateMessageFactory", []string{"g", "p", "f", "mf"}},
		{"rust", "dispatch", P + ".RustGenerator).generateMatchFieldEnumCode", []string{"g", "p"}},
	}
}

var scalarTypes = []string{"u8", "i8", "u16", "i16", "u32", "i32", "u64", "i64", "f32", "f64", "char"}

func emitCells() []emitCell {
	var cs []emitCell
	for _, t := range scalarTypes {
		for _, r := range []bool{false, true} {
			cs = append(cs, emitCell{Kind: "basic", Typ: t, Repeat: r})
		}
	}
	for _, r := range []bool{false, true} {
		cs = append(cs, emitCell{Kind: "fixed", Repeat: r}, emitCell{Kind: "fixed", Repeat: r, FieldPad: true})
		cs = append(cs, emitCell{Kind: "dynamic", Repeat: r})
		cs = append(cs, emitCell{Kind: "object", Repeat: r})
		cs = append(cs, emitCell{Kind: "inline", Repeat: r})
	}
	cs = append(cs, emitCell{Kind: "match"}, emitCell{Kind: "match", LenAttr: true})
	// a packet without fields (Lua entries only: the sub dissector of a body-less packet)
	cs = append(cs, emitCell{Kind: "empty"})
	// two scalar fields in one packet: the steps come in declaration order
	cs = append(cs, emitCell{Kind: "order", Typ: "u16"})
	// a match table whose alternatives all name one packet: dispatch must still go through the key
	cs = append(cs, emitCell{Kind: "match", Single: true})
	// the long spelling of a type in the model (the visitor stores the text as written): same text as for the short one
	cs = append(cs, emitCell{Kind: "basic", Typ: "u32", Alias: "uint32"}, emitCell{Kind: "basic", Typ: "u32", Alias: "uint32", Repeat: true},
		emitCell{Kind: "length", Typ: "u32", Alias: "uint32"}, emitCell{Kind: "checksum", Typ: "u32", Alias: "uint32"})
	for _, t := range []string{"u16", "u32"} {
		cs = append(cs, emitCell{Kind: "length", Typ: t}, emitCell{Kind: "checksum", Typ: t})
	}
	for i := range cs {
		c := &cs[i]
		c.ID = c.Kind
		if c.Typ != "" {
			c.ID += ":" + c.Typ
		}
		if c.Repeat {
			c.ID += ":repeat"
		}
		if c.FieldPad {
			c.ID += ":fieldpad"
		}
		if c.LenAttr {
			c.ID += ":lentarget"
		}
		if c.Single {
			c.ID += ":single"
		}
		if c.Alias != "" {
			c.ID += ":spelled-" + c.Alias
		}
	}
	return cs
}

func (c emitCell) spelled() string {
	if c.Alias != "" {
		return c.Alias
	}
	return c.Typ
}

// ---------------------------------------------------------------- building the symbolic cell

type cellObjs struct {
	model, cfg, cfgPad, pkt, field, attr, fieldPad *Term
	keyField, lenField                             *Term
	pairs                                          []*Term
	gGo, gPy                                       Value
}

func (e *Engine) mtype(name string) types.Type { return e.namedType(modelPkgPath, name) }

func (e *Engine) setF(s *State, obj *Term, st types.Type, field string, v ...*Term) {
	str := st.Underlying().(*types.Struct)
	idx := fieldIndex(str, field)
	if idx < 0 {
		e.fail("emit: no field %s in %s", field, st)
	}
	ft := str.Field(idx).Type()
	l := e.layout(ft)
	if len(l) != len(v) {
		e.fail("emit: field %s.%s has %d slots, got %d", st, field, len(l), len(v))
	}
	for i, sl := range l {
		s.sto(e.typeKey(st)+"."+field+sl.Suffix, []*Term{obj}, v[i])
	}
}

func (e *Engine) newObj(s *State, t types.Type) *Term { return s.newAlloc(e.typeKey(t)) }

func (e *Engine) ifaceOf(t types.Type, ref *Term) []*Term {
	return []*Term{e.typeID(types.NewPointer(t)), ref}
}

// sliceOf stores the given element values into a fresh array and returns the slice slots.
func (e *Engine) sliceOf(s *State, elem types.Type, vals ...Value) []*Term {
	arr := s.newAlloc("[]" + e.typeKey(elem))
	for i, v := range vals {
		e.store(s, Place{Prefix: "elem(" + e.typeKey(elem) + ")", Addr: []*Term{arr, Int(int64(i))}}, elem, v)
	}
	n := Int(int64(len(vals)))
	return []*Term{arr, Zero, n, n}
}

func (e *Engine) basicField(s *State, name *Term, typ string) *Term {
	fT, bT := e.mtype("Field"), e.mtype("BasicFieldAttribute")
	a := e.newObj(s, bT)
	e.setF(s, a, bT, "Type", Str(typ))
	f := e.newObj(s, fT)
	e.setF(s, f, fT, "Name", name)
	e.setF(s, f, fT, "Attr", e.ifaceOf(bT, a)...)
	return f
}

func (e *Engine) simplePacket(s *State, name string, pm *Term) *Term {
	pT, fT := e.mtype("Packet"), e.mtype("Field")
	p := e.newObj(s, pT)
	e.setF(s, p, pT, "Name", Str(name))
	f := e.basicField(s, Str(strings.ToLower(name)), "u8") // as in cellDSL: packet A { u8 a, }
	e.setF(s, p, pT, "Fields", e.sliceOf(s, types.NewPointer(fT), Value{f})...)
	mt := types.NewMap(types.Typ[types.String], types.NewPointer(pT))
	e.mapStore(s, mt, pm, Value{Str(name)}, Value{p})
	return p
}

func (e *Engine) buildCell(s *State, c emitCell) *cellObjs {
	o := &cellObjs{}
	mT, cT, pdT, pT, fT := e.mtype("BinaryModel"), e.mtype("Configuration"), e.mtype("Padding"), e.mtype("Packet"), e.mtype("Field")
	strT := types.Typ[types.String]
	// configuration: everything symbolic
	o.cfgPad = e.newObj(s, pdT)
	e.setF(s, o.cfgPad, pdT, "PadChar", Sym("in.cfg.PadChar", SStr))
	e.setF(s, o.cfgPad, pdT, "PadLeft", Sym("in.cfg.PadLeft", SBool))
	o.cfg = e.newObj(s, cT)
	e.setF(s, o.cfg, cT, "ListLenPrefixLenType", Sym("in.cfg.ListPrefix", SStr))
	e.setF(s, o.cfg, cT, "StringLenPrefixLenType", Sym("in.cfg.StrPrefix", SStr))
	e.setF(s, o.cfg, cT, "JavaPackage", Sym("in.cfg.JavaPackage", SStr))
	e.setF(s, o.cfg, cT, "GoPackage", Sym("in.cfg.GoPackage", SStr))
	e.setF(s, o.cfg, cT, "GoModule", Sym("in.cfg.GoModule", SStr))
	e.setF(s, o.cfg, cT, "LittleEndian", Sym("in.cfg.LE", SBool))
	e.setF(s, o.cfg, cT, "Padding", o.cfgPad)
	// value domains of the options (model.options / NewConfiguration)
	inSet := func(sym *Term, vals ...string) {
		var ds []*Term
		for _, v := range vals {
			ds = append(ds, Eq(sym, Str(v)))
		}
		s.assume(Or(ds...))
	}
	inSet(Sym("in.cfg.ListPrefix", SStr), "u8", "u16", "u32", "u64")
	inSet(Sym("in.cfg.StrPrefix", SStr), "u8", "u16", "u32", "u64")
	// model invariants the visitor establishes (proved there: AddPacket rejects duplicate packet names,
	// VisitPacketDefinition returns pairwise distinct field names — C12 D2 / D7)
	for _, n := range []string{"A", "B"} {
		s.assume(Ne(Sym("in.p.Name", SStr), Str(n)))
	}
	for _, n := range []string{"in.k.Name", "in.l.Name", "in.g.Name", "in.t.Name"} {
		s.assume(Ne(Sym("in.f.Name", SStr), Sym(n, SStr)))
	}
	s.assume(Ne(Sym("in.k.Name", SStr), Sym("in.l.Name", SStr)))
	// model with two auxiliary packets A and B
	o.model = e.newObj(s, mT)
	pmT := types.NewMap(strT, types.NewPointer(pT))
	pm := s.newAlloc(e.typeKey(pmT))
	e.setF(s, o.model, mT, "Config", o.cfg)
	e.setF(s, o.model, mT, "PacketsMap", pm)
	pa := e.simplePacket(s, "A", pm)
	pb := e.simplePacket(s, "B", pm)
	// the field under test
	o.field = e.newObj(s, fT)
	fname := Sym("in.f.Name", SStr)
	e.setF(s, o.field, fT, "Name", fname)
	e.setF(s, o.field, fT, "IsRepeat", Bool(c.Repeat))
	var fields []Value
	mk := func(tn string) (types.Type, *Term) {
		t := e.mtype(tn)
		return t, e.newObj(s, t)
	}
	switch c.Kind {
	case "basic", "order":
		t, a := mk("BasicFieldAttribute")
		e.setF(s, a, t, "Type", Str(c.spelled()))
		e.setF(s, o.field, fT, "Attr", e.ifaceOf(t, a)...)
		o.attr = a
	case "fixed":
		t, a := mk("FixedStringFieldAttribute")
		n := Sym("in.f.Length", SInt)
		s.assume(And(Le(Zero, n), Le(n, Int(1<<24))))
		e.setF(s, a, t, "Length", n)
		if c.FieldPad {
			o.fieldPad = e.newObj(s, pdT)
			e.setF(s, o.fieldPad, pdT, "PadChar", Sym("in.f.PadChar", SStr))
			e.setF(s, o.fieldPad, pdT, "PadLeft", Sym("in.f.PadLeft", SBool))
			e.setF(s, a, t, "Padding", o.fieldPad)
		}
		e.setF(s, o.field, fT, "Attr", e.ifaceOf(t, a)...)
	case "dynamic":
		t, a := mk("DynamicStringFieldAttribute")
		e.setF(s, o.field, fT, "Attr", e.ifaceOf(t, a)...)
	case "object", "inline":
		t, a := mk("ObjectFieldAttribute")
		e.setF(s, a, t, "IsIner", Bool(c.Kind == "inline"))
		if c.Kind == "inline" {
			// inline packet with one scalar member, not registered in PacketsMap
			ip := e.newObj(s, pT)
			e.setF(s, ip, pT, "Name", Sym("in.inl.Name", SStr))
			e.setF(s, ip, pT, "Fields", e.sliceOf(s, types.NewPointer(fT), Value{e.basicField(s, Str("w"), "u16")})...)
			e.setF(s, a, t, "PacketName", Sym("in.inl.Name", SStr))
			e.setF(s, a, t, "RefPacket", ip)
		} else {
			e.setF(s, a, t, "PacketName", Str("A"))
			e.setF(s, a, t, "RefPacket", pa)
		}
		e.setF(s, o.field, fT, "Attr", e.ifaceOf(t, a)...)
	case "match":
		t, a := mk("MatchFieldAttribute")
		o.keyField = e.basicField(s, Sym("in.k.Name", SStr), "u16")
		mpT := e.mtype("MatchPair")
		mkPair := func(i int, val string) Value {
			v := make(Value, len(e.layout(mpT)))
			for j, sl := range e.layout(mpT) {
				switch sl.Suffix {
				case ".Key":
					v[j] = Sym(fmt.Sprintf("in.mp%d.Key", i), SStr)
				case ".Value":
					v[j] = Str(val)
				default:
					v[j] = zeroOf(sl.Sort)
				}
			}
			return v
		}
		third := "B"
		if c.Single {
			third = "A"
		}
		// two adjacent keys for A, one for B (or A again), and A once more after it: duplicates of a target both
		// adjacent and non-adjacent
		pairs := e.sliceOf(s, mpT, mkPair(0, "A"), mkPair(1, "A"), mkPair(2, third), mkPair(3, "A"))
		o.pairs = pairs
		o.attr = a
		e.setF(s, a, t, "MatchKeyField", o.keyField)
		e.setF(s, a, t, "MatchPairs", pairs...)
		e.setF(s, o.field, fT, "Attr", e.ifaceOf(t, a)...)
		fields = append(fields, Value{o.keyField})
		_ = pb
	case "length":
		t, a := mk("LengthFieldAttribute")
		target := e.basicField(s, Sym("in.t.Name", SStr), "u8")
		e.setF(s, a, t, "TragetField", target)
		e.setF(s, a, t, "LengthType", Str(c.spelled()))
		e.setF(s, o.field, fT, "Attr", e.ifaceOf(t, a)...)
	case "checksum":
		t, a := mk("CheckSumFieldAttribute")
		e.setF(s, a, t, "Type", Str(c.spelled()))
		e.setF(s, a, t, "CheckSumType", Sym("in.f.CheckSumType", SStr))
		e.setF(s, o.field, fT, "Attr", e.ifaceOf(t, a)...)
	}
	if c.Kind != "empty" {
		fields = append(fields, Value{o.field})
	}
	var second *Term
	if c.Kind == "order" {
		second = e.basicField(s, Sym("in.g.Name", SStr), "u32")
		fields = append(fields, Value{second})
	}
	o.pkt = e.newObj(s, pT)
	e.setF(s, o.pkt, pT, "Name", Sym("in.p.Name", SStr))
	e.setF(s, o.pkt, pT, "IsRoot", True)
	if c.LenAttr {
		// a length field of type u32 named in.l.Name precedes the field and targets it
		lt, la := mk("LengthFieldAttribute")
		o.lenField = e.newObj(s, fT)
		e.setF(s, o.lenField, fT, "Name", Sym("in.l.Name", SStr))
		e.setF(s, la, lt, "TragetField", o.field)
		e.setF(s, la, lt, "LengthType", Str("u32"))
		e.setF(s, o.lenField, fT, "Attr", e.ifaceOf(lt, la)...)
		e.setF(s, o.field, fT, "LenAttr", e.ifaceOf(lt, la)...)
		e.setF(s, o.pkt, pT, "LengthField", o.lenField)
		fields = append([]Value{{o.lenField}}, fields...)
	}
	e.setF(s, o.pkt, pT, "Fields", e.sliceOf(s, types.NewPointer(fT), fields...)...)
	fmT := types.NewMap(strT, types.NewPointer(fT))
	fm := s.newAlloc(e.typeKey(fmT))
	e.setF(s, o.pkt, pT, "FieldMap", fm)
	e.mapStore(s, fmT, fm, Value{fname}, Value{o.field})
	if second != nil {
		e.mapStore(s, fmT, fm, Value{Sym("in.g.Name", SStr)}, Value{second})
	}
	if o.keyField != nil {
		e.mapStore(s, fmT, fm, Value{Sym("in.k.Name", SStr)}, Value{o.keyField})
		mpT := e.mtype("MatchPair")
		mfT := types.NewMap(strT, types.NewSlice(mpT))
		mfm := s.newAlloc(e.typeKey(mfT))
		e.setF(s, o.pkt, pT, "MatchFields", mfm)
		e.mapStore(s, mfT, mfm, Value{Sym("in.k.Name", SStr)}, Value(o.pairs))
	}
	e.setF(s, o.model, mT, "RootPacket", o.pkt)
	e.mapStore(s, pmT, pm, Value{Sym("in.p.Name", SStr)}, Value{o.pkt})
	// the cell packet is neither A nor B (assumed above): keep their entries on top of the store chain so
	// that a lookup of "A" / "B" resolves without a case split on the symbolic name
	e.mapStore(s, pmT, pm, Value{Str("A")}, Value{pa})
	e.mapStore(s, pmT, pm, Value{Str("B")}, Value{pb})
	e.setF(s, o.model, mT, "Packets", e.sliceOf(s, types.NewPointer(pT), Value{pa}, Value{pb}, Value{o.pkt})...)
	hg := s.newAlloc("hasGen")
	o.gGo = Value{o.model}
	o.gPy = Value{o.model, hg}
	return o
}

// ---------------------------------------------------------------- running one cell

// emitMaxSteps: the largest number of basic blocks any cell run needed (reported, to size the budget).
var emitMaxSteps int

type emitPath struct {
	text *Term
	pc   []*Term
}

type emitRun struct {
	entry  emitEntry
	cell   emitCell
	paths  []emitPath
	err    string
	pruned bool
}

func (e *Engine) findFunc(name string) *ssa.Function {
	for _, fn := range e.allRepoFunctionsRaw() {
		if fn.String() == name {
			return fn
		}
	}
	return nil
}

func (e *Engine) runEmit(en emitEntry, c emitCell) (run emitRun) {
	run.entry, run.cell = en, c
	fn := e.findFunc(en.Fn)
	if fn == nil {
		run.err = "emitter not found: " + en.Fn
		return
	}
	defer func() {
		if r := recover(); r != nil {
			if ee, ok := r.(execError); ok {
				run.err = ee.msg
				return
			}
			run.err = fmt.Sprintf("internal error: %v", r)
		}
	}()
	s := &State{heap: e.initHeap.clone(), nalloc: new(int), copies: map[int64]*arrCopy{}, allocTy: map[int64]string{}}
	*s.nalloc = e.initAlloc
	for k, v := range e.initCopies {
		s.copies[k] = v
	}
	e.curEntry = fn
	e.curPhaseB = false
	e.curFramed = false
	e.paths = 0
	e.steps = 0
	fr := &Frame{fn: fn, regs: map[ssa.Value]Value{}, loops: map[*ssa.BasicBlock]*loopEntry{}, block: fn.Blocks[0]}
	s.frames = []*Frame{fr}
	o := e.buildCell(s, c)
	pcBase := len(s.pc)
	_ = pcBase
	var args []Value
	for _, a := range en.Args {
		switch a {
		case "g":
			args = append(args, o.gGo)
		case "g2":
			args = append(args, o.gPy)
		case "p":
			args = append(args, Value{o.pkt})
		case "f":
			args = append(args, Value{o.field})
		case "mf":
			args = append(args, Value{o.attr})
		case "orig":
			args = append(args, Value{Str("original")})
		case "mdl":
			args = append(args, Value{o.model})
		case "pname":
			args = append(args, Value{Sym("in.p.CamelName", SStr)})
		}
	}
	if len(args) != len(fn.Params) {
		run.err = fmt.Sprintf("emitter %s takes %d parameters", en.Fn, len(fn.Params))
		return
	}
	for i, p := range fn.Params {
		fr.regs[p] = args[i]
		fr.params = append(fr.params, args[i])
	}
	fr.oldHeap = s.heap.clone()
	res := e.runEntry(s)
	if e.steps > emitMaxSteps {
		emitMaxSteps = e.steps
	}
	for _, r := range res {
		if len(r.ret) == 0 || len(r.ret[0]) != 1 || r.ret[0][0].S != SStr {
			continue
		}
		run.paths = append(run.paths, emitPath{text: r.ret[0][0], pc: append([]*Term(nil), r.st.pc...)})
	}
	return
}

// ---------------------------------------------------------------- normal forms and predicates

// placeholder vocabulary of the generators (text emitted instead of code for a construct they cannot express)
var markerWords = []string{"is not supported for", "-- unsupport", "unknow type", "unkown", "unknown type for", "error generating code", "unsupported numeric type", "todo"}

func symsOf(t *Term) map[string]bool {
	out := map[string]bool{}
	t.walk(func(x *Term) {
		if x.K == KSym && strings.HasPrefix(x.Name, "in.") {
			out[x.Name] = true
		}
	})
	return out
}

func setKeys(m map[string]bool) []string {
	var ks []string
	for k := range m {
		ks = append(ks, k)
	}
	sort.Strings(ks)
	return ks
}

// cfgLabel maps a symbol to the configuration / model attribute class it stands for.
func cfgLabel(sym string) string {
	switch sym {
	case "in.cfg.ListPrefix":
		return "ListPrefix"
	case "in.cfg.StrPrefix":
		return "StrPrefix"
	case "in.cfg.PadChar", "in.cfg.PadLeft":
		return "CfgPad"
	case "in.f.PadChar", "in.f.PadLeft":
		return "FieldPad"
	case "in.f.Length":
		return "Length"
	case "in.f.CheckSumType":
		return "CheckSum"
	case "in.cfg.LE":
		return "LE"
	}
	return ""
}

// atomLabels: sequence of configuration labels of the symbolic atoms of a text, in order.
func atomLabels(text *Term) []string {
	var seq []string
	for _, a := range strAtoms(text) {
		if a.K == KStrLit {
			continue
		}
		ls := map[string]bool{}
		for sym := range symsOf(a) {
			if l := cfgLabel(sym); l != "" && l != "LE" {
				ls[l] = true
			}
		}
		if len(ls) > 0 {
			seq = append(seq, strings.Join(setKeys(ls), "+"))
		}
	}
	return seq
}

func literalText(text *Term) string {
	var sb strings.Builder
	text.walk(func(x *Term) {
		if x.K == KStrLit {
			sb.WriteString(x.Name)
			sb.WriteString("\n")
		}
	})
	return sb.String()
}

func pcHas(pc []*Term, t *Term) bool {
	for _, c := range pc {
		if c == t {
			return true
		}
	}
	return false
}

// expected dependency classes per cell (from the property statements C01 / C02 / C04 / C06).
func expectedDeps(c emitCell, dir string) (must, mustNot []string, leMust, leMustNot bool) {
	multi := func(t string) bool { return t != "u8" && t != "i8" && t != "char" }
	switch c.Kind {
	case "basic", "order":
		mustNot = []string{"StrPrefix", "CfgPad", "FieldPad", "Length", "CheckSum"}
		if multi(c.Typ) {
			leMust = true
		}
	case "fixed":
		must = []string{"Length"}
		mustNot = []string{"StrPrefix", "CheckSum"}
		if !c.Repeat {
			leMustNot = true
		}
	case "dynamic":
		must = []string{"StrPrefix"}
		mustNot = []string{"CfgPad", "FieldPad", "Length", "CheckSum"}
		leMust = true
	case "object", "inline":
		mustNot = []string{"StrPrefix", "CfgPad", "FieldPad", "Length", "CheckSum"}
		if !c.Repeat {
			leMustNot = true
		}
	case "match":
		mustNot = []string{"StrPrefix", "ListPrefix", "CfgPad", "FieldPad", "Length", "CheckSum"}
	case "length":
		mustNot = []string{"StrPrefix", "ListPrefix", "CfgPad", "FieldPad", "Length", "CheckSum"}
		leMust = true
	case "checksum":
		mustNot = []string{"StrPrefix", "ListPrefix", "CfgPad", "FieldPad", "Length"}
		if dir == "enc" {
			must = []string{"CheckSum"}
		}
		leMust = true
	}
	if c.Repeat {
		must = append(must, "ListPrefix")
		leMust = true
	} else if c.Kind != "match" && c.Kind != "length" && c.Kind != "checksum" {
		mustNot = append(mustNot, "ListPrefix")
	}
	return
}
