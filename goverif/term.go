package main

// Terms: the logical language of verification conditions.
//
// Sorts: Bool, Int (Go integers, object references, type tags, function ids),
// Str (Go strings, abstract: literals are distinct constants, everything else is
// an uninterpreted symbol / function application / flat concatenation).
// All terms are interned, so structural equality is pointer equality.

import (
	"sync"
	"fmt"
	"sort"
	"strconv"
	"strings"
)

type Sort uint8

const (
	SBool Sort = iota
	SInt
	SStr
)

func (s Sort) String() string {
	switch s {
	case SBool:
		return "Bool"
	case SInt:
		return "Int"
	}
	return "Str"
}

type Kind uint8

const (
	KInt    Kind = iota // integer literal
	KBool               // boolean literal
	KStrLit             // string literal
	KSym                // free symbol (Name)
	KApp                // uninterpreted function application (Name, Args)
	KAlloc              // object allocated by the activation under verification (I = ordinal)
	KPlace              // interior pointer (I = index into place table)
	KFunc               // function value (I = index into func table)
	KOp                 // built-in operator (Name in opNames)
)

type Term struct {
	K    Kind
	S    Sort
	Name string
	I    int64
	Args []*Term
	key  string
	id   int
	// provenance labels for Str terms that originate in a named source
	// (model attribute, token text, configuration option...). Only on KSym/KApp.
}

var interned = map[string]*Term{}
var termCount int

func intern(t *Term) *Term {
	var sb strings.Builder
	switch t.K {
	case KInt:
		sb.WriteString("i")
		sb.WriteString(strconv.FormatInt(t.I, 10))
	case KBool:
		if t.I != 0 {
			sb.WriteString("T")
		} else {
			sb.WriteString("F")
		}
	case KStrLit:
		sb.WriteString("s")
		sb.WriteString(strconv.Quote(t.Name))
	case KSym:
		sb.WriteString("y")
		sb.WriteString(t.S.String()[:1])
		sb.WriteString(t.Name)
	case KAlloc:
		sb.WriteString("a")
		sb.WriteString(strconv.FormatInt(t.I, 10))
	case KPlace:
		sb.WriteString("p")
		sb.WriteString(strconv.FormatInt(t.I, 10))
	case KFunc:
		sb.WriteString("f")
		sb.WriteString(strconv.FormatInt(t.I, 10))
	case KApp, KOp:
		if t.K == KApp {
			sb.WriteString("A")
			sb.WriteString(t.S.String()[:1])
		} else {
			sb.WriteString("O")
		}
		sb.WriteString(t.Name)
		sb.WriteString("(")
		for i, a := range t.Args {
			if i > 0 {
				sb.WriteString(",")
			}
			sb.WriteString(strconv.Itoa(a.id))
		}
		sb.WriteString(")")
	}
	k := sb.String()
	if x, ok := interned[k]; ok {
		return x
	}
	t.key = k
	termCount++
	t.id = termCount
	interned[k] = t
	return t
}

func Int(n int64) *Term { return intern(&Term{K: KInt, S: SInt, I: n}) }
func Bool(b bool) *Term {
	if b {
		return intern(&Term{K: KBool, S: SBool, I: 1})
	}
	return intern(&Term{K: KBool, S: SBool, I: 0})
}
func Str(s string) *Term         { return intern(&Term{K: KStrLit, S: SStr, Name: s}) }
func Sym(n string, s Sort) *Term { return intern(&Term{K: KSym, S: s, Name: n}) }
func Alloc(n int) *Term          { return intern(&Term{K: KAlloc, S: SInt, I: int64(n)}) }
func PlaceT(n int) *Term         { return intern(&Term{K: KPlace, S: SInt, I: int64(n)}) }
func FuncT(n int) *Term          { return intern(&Term{K: KFunc, S: SInt, I: int64(n)}) }
func App(n string, s Sort, a ...*Term) *Term {
	return intern(&Term{K: KApp, S: s, Name: n, Args: a})
}
func op(n string, s Sort, a ...*Term) *Term {
	return intern(&Term{K: KOp, S: s, Name: n, Args: a})
}

var True = Bool(true)
var False = Bool(false)
var Zero = Int(0)
var EmptyStr = Str("")

func (t *Term) IsTrue() bool  { return t == True }
func (t *Term) IsFalse() bool { return t == False }
func (t *Term) IsConst() bool { return t.K == KInt || t.K == KBool || t.K == KStrLit }
func (t *Term) isOp(n string) bool {
	return t.K == KOp && t.Name == n
}

// ---------------------------------------------------------------- constructors with simplification

func Not(a *Term) *Term {
	if a == True {
		return False
	}
	if a == False {
		return True
	}
	if a.isOp("not") {
		return a.Args[0]
	}
	return op("not", SBool, a)
}

func And(as ...*Term) *Term {
	var out []*Term
	seen := map[*Term]bool{}
	for _, a := range as {
		if a == True {
			continue
		}
		if a == False {
			return False
		}
		if a.isOp("and") {
			for _, b := range a.Args {
				if !seen[b] {
					seen[b] = true
					out = append(out, b)
				}
			}
			continue
		}
		if !seen[a] {
			seen[a] = true
			out = append(out, a)
		}
	}
	for _, a := range out {
		if seen[Not(a)] {
			return False
		}
	}
	if len(out) == 0 {
		return True
	}
	if len(out) == 1 {
		return out[0]
	}
	return op("and", SBool, out...)
}

func Or(as ...*Term) *Term {
	var out []*Term
	seen := map[*Term]bool{}
	for _, a := range as {
		if a == False {
			continue
		}
		if a == True {
			return True
		}
		if a.isOp("or") {
			for _, b := range a.Args {
				if !seen[b] {
					seen[b] = true
					out = append(out, b)
				}
			}
			continue
		}
		if !seen[a] {
			seen[a] = true
			out = append(out, a)
		}
	}
	for _, a := range out {
		if seen[Not(a)] {
			return True
		}
	}
	if len(out) == 0 {
		return False
	}
	if len(out) == 1 {
		return out[0]
	}
	return op("or", SBool, out...)
}

func Implies(a, b *Term) *Term { return Or(Not(a), b) }

func Ite(c, a, b *Term) *Term {
	if c == True {
		return a
	}
	if c == False {
		return b
	}
	if a == b {
		return a
	}
	if a.S == SBool {
		if a == True && b == False {
			return c
		}
		if a == False && b == True {
			return Not(c)
		}
		return And(Or(Not(c), a), Or(c, b))
	}
	return op("ite", a.S, c, a, b)
}

// isOld: the term denotes a reference that existed before the activation under
// verification started (or nil): parameters, reads of the initial heap, results of
// trusted pure accessors. Such a term can never be equal to a KAlloc term.
func isOldRef(t *Term) bool {
	switch t.K {
	case KSym:
		return strings.HasPrefix(t.Name, "in.") || strings.HasPrefix(t.Name, "g.")
	case KApp:
		if strings.HasPrefix(t.Name, "H0.") {
			// the initial heap is closed under reachability from old objects only
			return len(t.Args) == 0 || isOldRef(t.Args[0])
		}
		return strings.HasPrefix(t.Name, "acc.") || strings.HasPrefix(t.Name, "tok.") || strings.HasPrefix(t.Name, "old.")
	case KInt:
		return t.I == 0
	case KAlloc:
		return t.I < initAllocBoundary
	case KOp:
		if t.Name == "ite" {
			return isOldRef(t.Args[1]) && isOldRef(t.Args[2])
		}
	}
	return false
}

// initAllocBoundary: allocations with a smaller ordinal were made by package initialisers
// (global tables); they are old objects.
var initAllocBoundary int64

func isFreshRef(t *Term) bool {
	switch t.K {
	case KAlloc:
		return t.I >= initAllocBoundary
	case KOp:
		if t.Name == "ite" {
			return isFreshRef(t.Args[1]) && isFreshRef(t.Args[2])
		}
	}
	return false
}

func Eq(a, b *Term) *Term {
	if a == b {
		return True
	}
	if a.S != b.S {
		panic(fmt.Sprintf("Eq sort mismatch: %v %v", a, b))
	}
	if a.IsConst() && b.IsConst() {
		return False // interned: different constants
	}
	if a.S == SBool {
		if a == True {
			return b
		}
		if b == True {
			return a
		}
		if a == False {
			return Not(b)
		}
		if b == False {
			return Not(a)
		}
	}
	if a.S == SInt {
		if (a.K == KAlloc || a.K == KPlace || a.K == KFunc) && (b.K == KAlloc || b.K == KPlace || b.K == KFunc) {
			return False // distinct interned allocations
		}
		if (a.K == KAlloc || a.K == KPlace || a.K == KFunc) && b.K == KInt || (b.K == KAlloc || b.K == KPlace || b.K == KFunc) && a.K == KInt {
			return False // allocations are non-nil and not small integers
		}
		af, bf := isFreshRef(a) && a.K == KAlloc || a.K == KPlace || a.K == KFunc, isFreshRef(b) && b.K == KAlloc || b.K == KPlace || b.K == KFunc
		if (af && isOldRef(b)) || (bf && isOldRef(a)) {
			return False
		}
		// ite lifting when one side is a constant-like
		if a.isOp("ite") && (b.IsConst() || bf) {
			return Ite(a.Args[0], Eq(a.Args[1], b), Eq(a.Args[2], b))
		}
		if b.isOp("ite") && (a.IsConst() || af) {
			return Ite(b.Args[0], Eq(a, b.Args[1]), Eq(a, b.Args[2]))
		}
		// x + c == d
		if a.isOp("add") && b.K == KInt && len(a.Args) == 2 && a.Args[1].K == KInt {
			return Eq(a.Args[0], Int(b.I-a.Args[1].I))
		}
	}
	if a.S == SStr && (a.isOp("concat") || b.isOp("concat")) {
		// cancellation: x ++ A == x ++ B  <=>  A == B (and symmetrically for suffixes)
		aa, bb := strAtoms(a), strAtoms(b)
		i := 0
		for i < len(aa) && i < len(bb) && aa[i] == bb[i] {
			i++
		}
		aa, bb = aa[i:], bb[i:]
		j := 0
		for j < len(aa) && j < len(bb) && aa[len(aa)-1-j] == bb[len(bb)-1-j] {
			j++
		}
		aa, bb = aa[:len(aa)-j], bb[:len(bb)-j]
		if i > 0 || j > 0 {
			return Eq(Concat(aa...), Concat(bb...))
		}
	}
	if a.S == SStr {
		// concat vs literal: compare known literal prefix/suffix and lengths
		if r, ok := strEqDecide(a, b); ok {
			return Bool(r)
		}
		if a.isOp("ite") && b.K == KStrLit {
			return Ite(a.Args[0], Eq(a.Args[1], b), Eq(a.Args[2], b))
		}
		if b.isOp("ite") && a.K == KStrLit {
			return Ite(b.Args[0], Eq(a, b.Args[1]), Eq(a, b.Args[2]))
		}
	}
	if a.id > b.id {
		a, b = b, a
	}
	return op("=", SBool, a, b)
}

func Ne(a, b *Term) *Term { return Not(Eq(a, b)) }

// strEqDecide decides equality of a concat/literal pair when the literal
// skeleton alone settles it (different literal prefix, minimum length too large...).
func strEqDecide(a, b *Term) (bool, bool) {
	if a.K == KStrLit && b.K == KStrLit {
		return a == b, true
	}
	var lit, other *Term
	if a.K == KStrLit {
		lit, other = a, b
	} else if b.K == KStrLit {
		lit, other = b, a
	} else {
		return false, false
	}
	if !other.isOp("concat") {
		return false, false
	}
	parts := other.Args
	// literal prefix
	pre := ""
	for _, p := range parts {
		if p.K != KStrLit {
			break
		}
		pre += p.Name
	}
	suf := ""
	for i := len(parts) - 1; i >= 0; i-- {
		if parts[i].K != KStrLit {
			break
		}
		suf = parts[i].Name + suf
	}
	minlen := 0
	for _, p := range parts {
		if p.K == KStrLit {
			minlen += len(p.Name)
		}
	}
	if minlen > len(lit.Name) {
		return false, true
	}
	if !strings.HasPrefix(lit.Name, pre) || !strings.HasSuffix(lit.Name, suf) {
		return false, true
	}
	return false, false
}

func Add(a, b *Term) *Term {
	if a.K == KInt && b.K == KInt {
		return Int(a.I + b.I)
	}
	if a.K == KInt && a.I == 0 {
		return b
	}
	if b.K == KInt && b.I == 0 {
		return a
	}
	if a.K == KInt {
		a, b = b, a
	}
	// (x + c1) + c2
	if a.isOp("add") && b.K == KInt && a.Args[1].K == KInt {
		return Add(a.Args[0], Int(a.Args[1].I+b.I))
	}
	return op("add", SInt, a, b)
}

func Sub(a, b *Term) *Term {
	if b.K == KInt {
		return Add(a, Int(-b.I))
	}
	if a == b {
		return Zero
	}
	return op("sub", SInt, a, b)
}

func Mul(a, b *Term) *Term {
	if a.K == KInt && b.K == KInt {
		return Int(a.I * b.I)
	}
	return op("mul", SInt, a, b)
}

// splitAdd: t = base + c
func splitAdd(t *Term) (*Term, int64) {
	if t.K == KInt {
		return nil, t.I
	}
	if t.isOp("add") && t.Args[1].K == KInt {
		return t.Args[0], t.Args[1].I
	}
	return t, 0
}

func Lt(a, b *Term) *Term {
	if a.K == KInt && b.K == KInt {
		return Bool(a.I < b.I)
	}
	ab, ac := splitAdd(a)
	bb, bc := splitAdd(b)
	if ab == bb {
		return Bool(ac < bc)
	}
	return op("<", SBool, a, b)
}

func Le(a, b *Term) *Term {
	if a.K == KInt && b.K == KInt {
		return Bool(a.I <= b.I)
	}
	ab, ac := splitAdd(a)
	bb, bc := splitAdd(b)
	if ab == bb {
		return Bool(ac <= bc)
	}
	return op("<=", SBool, a, b)
}

// StrLen of a Str term.
func StrLen(s *Term) *Term {
	switch {
	case s.K == KStrLit:
		return Int(int64(len(s.Name)))
	case s.isOp("concat"):
		var sum *Term = Zero
		for _, a := range s.Args {
			sum = Add(StrLen(a), sum)
		}
		return sum
	case s.isOp("ite"):
		return Ite(s.Args[0], StrLen(s.Args[1]), StrLen(s.Args[2]))
	}
	return App("strlen", SInt, s)
}

// Concat builds a flat concatenation; adjacent literals are merged.
func Concat(parts ...*Term) *Term {
	var out []*Term
	var push func(p *Term)
	push = func(p *Term) {
		if p.isOp("concat") {
			for _, q := range p.Args {
				push(q)
			}
			return
		}
		if p.K == KStrLit {
			if p.Name == "" {
				return
			}
			if n := len(out); n > 0 && out[n-1].K == KStrLit {
				out[n-1] = Str(out[n-1].Name + p.Name)
				return
			}
		}
		out = append(out, p)
	}
	for _, p := range parts {
		if p.S != SStr {
			panic("Concat of non-string " + p.String())
		}
		push(p)
	}
	if len(out) == 0 {
		return EmptyStr
	}
	if len(out) == 1 {
		return out[0]
	}
	return op("concat", SStr, out...)
}

// atoms of a Str term (flat list; ite atoms are kept whole).
func strAtoms(s *Term) []*Term {
	if s.isOp("concat") {
		return s.Args
	}
	if s.K == KStrLit && s.Name == "" {
		return nil
	}
	return []*Term{s}
}

// ---------------------------------------------------------------- printing

func (t *Term) String() string {
	switch t.K {
	case KInt:
		return strconv.FormatInt(t.I, 10)
	case KBool:
		if t.I != 0 {
			return "true"
		}
		return "false"
	case KStrLit:
		return strconv.Quote(t.Name)
	case KSym:
		return t.Name
	case KAlloc:
		return fmt.Sprintf("new#%d", t.I)
	case KPlace:
		return fmt.Sprintf("place#%d", t.I)
	case KFunc:
		return fmt.Sprintf("func#%d", t.I)
	}
	var as []string
	for _, a := range t.Args {
		as = append(as, a.String())
	}
	return t.Name + "(" + strings.Join(as, ", ") + ")"
}

// freeSyms collects the names of free symbols and applications (with arity / sorts).
func (t *Term) walk(f func(*Term)) {
	seen := map[*Term]bool{}
	var rec func(*Term)
	rec = func(x *Term) {
		if seen[x] {
			return
		}
		seen[x] = true
		f(x)
		for _, a := range x.Args {
			rec(a)
		}
	}
	rec(t)
}

// ---------------------------------------------------------------- SMT-LIB2

type smtCtx struct {
	marks   []callMark
	bound   map[string]bool
	decls   map[string]string
	order   []string
	strLits map[string]int
	lets    map[*Term]string
	refAx   map[string]string // axioms for reference-valued slots of the initial heap (see quantRefSlots)
}

// quantRefSlots: slot functions of the initial heap (H0.*) that hold references and were read under a
// quantifier of a contract. Heap well-formedness (every reference stored in the heap the function was
// entered with denotes an object that existed then) is assumed per load for ground terms
// (allocatedAssume); a load whose address contains a bound variable gets the same fact as an axiom
// `forall x. x <= ALLOC0 ==> H0.f(x) <= ALLOC0` (objects that existed at entry hold references to objects
// that existed at entry) with the application as its pattern.
var (
	quantRefSlots   = map[string]bool{}
	quantRefSlotsMu sync.Mutex
)

func noteQuantRefSlot(t *Term) {
	if t == nil || t.K != KApp || !strings.HasPrefix(t.Name, "H0.") {
		return
	}
	quantRefSlotsMu.Lock()
	quantRefSlots[t.Name] = true
	quantRefSlotsMu.Unlock()
}

func smtName(n string) string {
	return "|" + strings.NewReplacer("|", "!", "\\", "!").Replace(n) + "|"
}

func (c *smtCtx) declare(name, decl string) {
	if _, ok := c.decls[name]; !ok {
		c.decls[name] = decl
		c.order = append(c.order, name)
	}
}

func (c *smtCtx) emit(t *Term) string {
	switch t.K {
	case KInt:
		if t.I < 0 {
			return "(- " + strings.TrimPrefix(strconv.FormatInt(t.I, 10), "-") + ")"
		}
		return strconv.FormatInt(t.I, 10)
	case KBool:
		if t.I != 0 {
			return "true"
		}
		return "false"
	case KStrLit:
		id, ok := c.strLits[t.Name]
		if !ok {
			id = len(c.strLits)
			c.strLits[t.Name] = id
		}
		return fmt.Sprintf("strlit!%d", id)
	case KSym:
		if t.Name == "ALLOC0" {
			return "ALLOC0"
		}
		n := smtName(t.Name)
		if !c.bound[t.Name] {
			c.declare(n, fmt.Sprintf("(declare-fun %s () %s)", n, t.S))
		}
		return n
	case KAlloc:
		if t.I < initAllocBoundary {
			return strconv.FormatInt(t.I+1, 10)
		}
		base := "ALLOC0"
		off := t.I - initAllocBoundary + 1
		for _, m := range c.marks {
			if int64(m.nAtCall) <= t.I {
				base = c.emit(m.wmpost)
				off = t.I - int64(m.nAtCall) + 1
			}
		}
		return fmt.Sprintf("(+ %s %d)", base, off)
	case KPlace:
		return fmt.Sprintf("(- 0 %d)", 1000000+t.I)
	case KFunc:
		return fmt.Sprintf("(- 0 %d)", 2000000+t.I)
	case KApp:
		if t.Name == "isfresh" {
			return "(> " + c.emit(t.Args[0]) + " ALLOC0)"
		}
		n := smtName(t.Name)
		var sorts, args []string
		for _, a := range t.Args {
			sorts = append(sorts, a.S.String())
			args = append(args, c.emit(a))
		}
		c.declare(n, fmt.Sprintf("(declare-fun %s (%s) %s)", n, strings.Join(sorts, " "), t.S))
		if len(args) > 0 && t.S == SInt {
			quantRefSlotsMu.Lock()
			isRef := quantRefSlots[t.Name]
			quantRefSlotsMu.Unlock()
			if isRef && c.refAx[n] == "" {
				var bvs, xs []string
				for i, so := range sorts {
					bvs = append(bvs, fmt.Sprintf("(wfx!%d %s)", i, so))
					xs = append(xs, fmt.Sprintf("wfx!%d", i))
				}
				app := "(" + n + " " + strings.Join(xs, " ") + ")"
				if c.refAx == nil {
					c.refAx = map[string]string{}
				}
				// only for objects that existed at entry (first argument = object address): the content of an
				// object allocated by this activation may be read through the same base function
				c.refAx[n] = "(assert (forall (" + strings.Join(bvs, " ") + ") (! (=> (<= wfx!0 ALLOC0) (<= " + app + " ALLOC0)) :pattern (" + app + "))))"
			}
		}
		if len(args) == 0 {
			return n
		}
		return "(" + n + " " + strings.Join(args, " ") + ")"
	}
	if t.Name == "forall" {
		bv := t.Args[0]
		c.bound[bv.Name] = true
		body := c.emit(t.Args[1])
		return "(forall ((" + smtName(bv.Name) + " " + bv.S.String() + ")) " + body + ")"
	}
	var args []string
	for _, a := range t.Args {
		args = append(args, c.emit(a))
	}
	switch t.Name {
	case "add":
		return "(+ " + strings.Join(args, " ") + ")"
	case "sub":
		return "(- " + strings.Join(args, " ") + ")"
	case "mul":
		return "(* " + strings.Join(args, " ") + ")"
	case "div":
		return "(div " + strings.Join(args, " ") + ")"
	case "mod":
		return "(mod " + strings.Join(args, " ") + ")"
	case "concat":
		// right-nested binary uninterpreted concat
		s := args[len(args)-1]
		for i := len(args) - 2; i >= 0; i-- {
			s = "(str!cat " + args[i] + " " + s + ")"
		}
		c.declare("str!cat", "(declare-fun str!cat (Str Str) Str)")
		return s
	}
	return "(" + t.Name + " " + strings.Join(args, " ") + ")"
}

// smtQuery renders "assumptions and not goal" as an SMT-LIB2 script.
func smtQuery(assumptions []*Term, goal *Term, marks []callMark) string {
	c := &smtCtx{decls: map[string]string{}, strLits: map[string]int{}, bound: map[string]bool{}, marks: marks}
	var body []string
	for _, a := range assumptions {
		body = append(body, "(assert "+c.emit(a)+")")
	}
	body = append(body, "(assert (not "+c.emit(goal)+"))")
	// facts about strlen of non-literals: non-negative
	var extra []string
	lenSeen := map[*Term]bool{}
	collect := func(t *Term) {
		t.walk(func(x *Term) {
			if x.K == KApp && x.Name == "strlen" && !lenSeen[x] {
				lenSeen[x] = true
				extra = append(extra, "(assert (>= "+c.emit(x)+" 0))")
				extra = append(extra, fmt.Sprintf("(assert (<= %s %d))", c.emit(x), int64(1)<<48))
				// strlen(x) == 0 <=> x == ""
				extra = append(extra, "(assert (= (= "+c.emit(x)+" 0) (= "+c.emit(x.Args[0])+" "+c.emit(EmptyStr)+")))")
			}
		})
	}
	for _, a := range assumptions {
		collect(a)
	}
	collect(goal)
	if len(lenSeen) > 0 {
		for s := range c.strLits {
			extra = append(extra, fmt.Sprintf("(assert (= (|strlen| %s) %d))", c.emit(Str(s)), len(s)))
		}
	}
	var sb strings.Builder
	sb.WriteString("(set-option :produce-models true)\n(set-logic ALL)\n(declare-sort Str 0)\n(declare-fun ALLOC0 () Int)\n")
	sb.WriteString(fmt.Sprintf("(assert (>= ALLOC0 %d))\n", initAllocBoundary+1))
	// string literals
	lits := make([]string, len(c.strLits))
	for s, i := range c.strLits {
		lits[i] = s
	}
	for i := range lits {
		sb.WriteString(fmt.Sprintf("(declare-fun strlit!%d () Str) ; %s\n", i, strconv.Quote(lits[i])))
	}
	if len(lits) > 1 {
		sb.WriteString("(assert (distinct")
		for i := range lits {
			sb.WriteString(fmt.Sprintf(" strlit!%d", i))
		}
		sb.WriteString("))\n")
	}
	sort.Strings(c.order)
	for _, n := range c.order {
		sb.WriteString(c.decls[n])
		sb.WriteString("\n")
	}
	for _, e := range extra {
		sb.WriteString(e)
		sb.WriteString("\n")
	}
	var axn []string
	for n := range c.refAx {
		axn = append(axn, n)
	}
	sort.Strings(axn)
	for _, n := range axn {
		sb.WriteString(c.refAx[n])
		sb.WriteString("\n")
	}
	for _, b := range body {
		sb.WriteString(b)
		sb.WriteString("\n")
	}
	sb.WriteString("(check-sat)\n(get-model)\n")
	return sb.String()
}
