package main

// C15: structural obligations on the text emitted by the Lua (Wireshark) generator.
//
// The dissector threads one variable, `offset`, through the emitted statements.  What the property
// states about byte ranges is decided by the emitted *template*, and the template is what the Go
// functions compute; the following predicates are therefore statements about the (symbolic) text
// returned by the real emitter for a cell, and are evaluated on its normal form (literal parts
// verbatim, every other atom as <term>).  The same functions are applied to concrete text in the
// replay and in the bounded whole-file check.
//
//   advance  every read `buf(offset, W)` that displays a field or fetches a prefix / key is followed,
//            before the next read of another width and before the end of its block, by
//            `offset = offset + W` with the very same W
//   nested   the offset returned by a nested dissector (`dissect_x(buf, pinfo, T, offset)`, whose
//            emitted body ends in `return offset`) is assigned to `offset`
//   scope    every variable the step uses (tree receiver, width, loop bound, match key, tree argument
//            of a nested call) is a parameter or a `local` of the enclosing emitted function
//   width    W is the wire size of the declared type (integer/float width; n for char[n]); a length
//            prefix is fetched with the size and the accessor of the configured prefix type and byte
//            order, and the payload width is that fetched variable
//
// File level (bounded, real Generate on enumerated programs): `defined`: a `local function
// dissect_x` precedes, in the text, every call of dissect_x.

import (
	"fmt"
	"regexp"
	"sort"
	"strings"
)

var luaWireSize = map[string]int{"u8": 1, "i8": 1, "char": 1, "u16": 2, "i16": 2, "u32": 4, "i32": 4, "f32": 4, "u64": 8, "i64": 8, "f64": 8}

// accessor of tvb ranges for a prefix of the given type (Wireshark API: uint()/int() read 1..4 bytes,
// uint64()/int64() read 8)
func luaPrefixAccessor(typ string, le bool) string {
	m := map[string]string{"u8": "uint", "u16": "uint", "u32": "uint", "u64": "uint64", "i8": "int", "i16": "int", "i32": "int", "i64": "int64"}[typ]
	if le {
		return "le_" + m
	}
	return m
}

// luaIdentAt: an identifier starting at s[i:], made of [A-Za-z0-9_] and <...> atoms; returns its end.
func luaIdentAt(s string, i int) int {
	for i < len(s) {
		c := s[i]
		switch {
		case c == '_' || c >= '0' && c <= '9' || c >= 'a' && c <= 'z' || c >= 'A' && c <= 'Z':
			i++
		case c == '<':
			d, j := 0, i
			for j < len(s) {
				if s[j] == '<' {
					d++
				} else if s[j] == '>' {
					d--
					if d == 0 {
						break
					}
				}
				j++
			}
			if j >= len(s) {
				return i
			}
			i = j + 1
		default:
			return i
		}
	}
	return i
}

// luaBufWidth: the W of the first `buf(offset, W)` of the line (balanced parentheses), "" if none.
func luaBufWidth(line string) (w string, rest string) {
	k := strings.Index(line, "buf(offset, ")
	if k < 0 {
		return "", ""
	}
	i := k + len("buf(offset, ")
	d := 0
	for j := i; j < len(line); j++ {
		switch line[j] {
		case '(':
			d++
		case ')':
			if d == 0 {
				return line[i:j], line[j+1:]
			}
			d--
		}
	}
	return "", ""
}

func luaIsNumber(w string) bool {
	if w == "" {
		return false
	}
	for _, c := range w {
		if c < '0' || c > '9' {
			return strings.HasPrefix(w, "<fmt.int.d(") // a formatted integer atom
		}
	}
	return true
}

type luaRead struct {
	Line     string
	Kind     string // display | local
	Recv     string // tree receiver of a display line
	Method   string // add / le_add, or the accessor of a local read
	Target   string // fields.X or the local's name
	Width    string
	Function string
}

type luaAnalysis struct {
	Issues map[string][]string // advance / nested / scope
	Reads  []luaRead
	Calls  []string // dissect_ callee names, in order
	Defs   map[string]int
}

var (
	luaCallRe   = regexp.MustCompile(`dissect_`)
	luaAdvRe    = regexp.MustCompile(`^offset = offset \+ (.+)$`)
	luaLocalRe  = regexp.MustCompile(`^local (\S+) = (.*)$`)
	luaForRe    = regexp.MustCompile(`^for (\w+)=1,(.+) do$`)
	luaIfRe     = regexp.MustCompile(`^(else)?if (.+) == (.+) then`)
	luaConcatRe = regexp.MustCompile(`"\s*\.\.\s*`)
)

// luaFuncHeader: ["", "local " or "", name, params] of a `function name(params)` line, nil otherwise.
func luaFuncHeader(line string) []string {
	rest, local := line, ""
	if strings.HasPrefix(rest, "local function ") {
		local, rest = "local ", strings.TrimPrefix(rest, "local ")
	}
	if !strings.HasPrefix(rest, "function ") || !strings.HasSuffix(rest, ")") {
		return nil
	}
	rest = strings.TrimPrefix(rest, "function ")
	i := 0
	for i < len(rest) {
		j := luaIdentAt(rest, i)
		if j < len(rest) && (rest[j] == '.' || rest[j] == ':') {
			j++
		}
		if j == i {
			break
		}
		i = j
	}
	if i == 0 || i >= len(rest) || rest[i] != '(' {
		return nil
	}
	return []string{line, local, rest[:i], rest[i+1 : len(rest)-1]}
}

func analyseLua(text string) *luaAnalysis {
	a := &luaAnalysis{Issues: map[string][]string{}, Defs: map[string]int{}}
	issue := func(kind, format string, args ...interface{}) {
		a.Issues[kind] = append(a.Issues[kind], fmt.Sprintf(format, args...))
	}
	type scope struct {
		vars     map[string]bool
		function bool
	}
	var scopes []*scope
	push := func(fn bool) { scopes = append(scopes, &scope{vars: map[string]bool{}, function: fn}) }
	pop := func() {
		if len(scopes) > 0 {
			scopes = scopes[:len(scopes)-1]
		}
	}
	declared := func(v string) bool {
		for i := len(scopes) - 1; i >= 0; i-- {
			if scopes[i].vars[v] {
				return true
			}
		}
		return false
	}
	inFunction := func() bool {
		for _, s := range scopes {
			if s.function {
				return true
			}
		}
		return false
	}
	declare := func(v string) {
		if len(scopes) > 0 {
			scopes[len(scopes)-1].vars[v] = true
		}
	}
	use := func(v, what, line string) {
		v = strings.TrimSpace(v)
		if v == "" || luaIsNumber(v) || !inFunction() {
			return
		}
		if !declared(v) {
			issue("scope", "%s `%s` is neither a parameter nor a local of the enclosing function: %s", what, v, line)
		}
	}
	pending, pendingLine, curFn := "", "", ""
	flush := func(why string) {
		if pending != "" {
			issue("advance", "the read of width %s (%s) is not followed by `offset = offset + %s` before %s", pending, pendingLine, pending, why)
			pending = ""
		}
	}
	read := func(w, line string) {
		if pending != "" && pending != w {
			issue("advance", "two reads of different widths (%s, then %s) without an advance in between: %s", pending, w, line)
		}
		pending, pendingLine = w, line
	}
	for n, raw := range strings.Split(text, "\n") {
		line := strings.TrimSpace(raw)
		if line == "" || strings.HasPrefix(line, "--") {
			continue
		}
		if m := luaFuncHeader(line); m != nil {
			flush("the next function")
			name := m[2]
			if m[1] != "" {
				a.Defs[name] = n
				declare(name)
			}
			push(true)
			curFn = name
			for _, p := range strings.Split(m[3], ",") {
				declare(strings.TrimSpace(p))
			}
			continue
		}
		if m := luaForRe.FindStringSubmatch(line); m != nil {
			flush("the loop")
			use(m[2], "loop bound", line)
			push(false)
			declare(m[1])
			continue
		}
		if m := luaIfRe.FindStringSubmatch(line); m != nil {
			flush("the branch")
			use(m[2], "match key", line)
			if m[1] != "" {
				pop()
			}
			push(false)
			continue
		}
		if line == "else" {
			flush("the branch")
			pop()
			push(false)
			continue
		}
		if line == "end" || strings.HasPrefix(line, "end ") || strings.HasPrefix(line, "end)") {
			flush("the end of the block")
			pop()
			continue
		}
		if strings.HasPrefix(line, "return") {
			flush("the return")
			continue
		}
		if luaCallRe.MatchString(line) && strings.Contains(line, "(buf, pinfo,") {
			flush("the nested dissector call")
			k := strings.Index(line, "dissect_")
			e := luaIdentAt(line, k)
			callee := line[k:e]
			a.Calls = append(a.Calls, callee)
			args := strings.Split(strings.TrimSuffix(strings.TrimSpace(line[e:]), ")"), ",")
			if len(args) >= 3 {
				use(args[2], "tree argument", line)
			}
			if _, ok := a.Defs[callee]; !ok {
				a.Issues["defined"] = append(a.Issues["defined"], fmt.Sprintf("`%s` is called in %s before (or without) its `local function` definition: the name resolves to an undefined global", callee, curFn))
			}
			if !strings.HasPrefix(line, "offset = dissect_") {
				issue("nested", "the offset returned by the nested dissector is discarded, the following steps start where the nested packet started: %s", line)
			}
			continue
		}
		if m := luaAdvRe.FindStringSubmatch(line); m != nil {
			w := strings.TrimSpace(m[1])
			use(w, "advance width", line)
			if pending != "" && pending != w {
				issue("advance", "read of width %s (%s) but advance by %s", pending, pendingLine, w)
			}
			pending = ""
			continue
		}
		if m := luaLocalRe.FindStringSubmatch(line); m != nil {
			if w, rest := luaBufWidth(m[2]); w != "" && strings.HasPrefix(m[2], "buf(offset, ") && strings.HasPrefix(rest, ":") {
				use(w, "read width", line)
				read(w, line)
				acc := strings.TrimSuffix(strings.TrimPrefix(rest, ":"), "()")
				a.Reads = append(a.Reads, luaRead{Line: line, Kind: "local", Method: acc, Target: m[1], Width: w, Function: curFn})
			} else if k := strings.Index(m[2], ":add("); k > 0 && luaIdentAt(m[2], 0) == k {
				use(m[2][:k], "tree receiver", line)
			}
			declare(m[1])
			continue
		}
		// display lines: T:add(fields.X, buf(offset, W)) / T:le_add(...) / T:add("text".. V, buf(offset, W))
		if e := luaIdentAt(line, 0); e > 0 && e < len(line) && line[e] == ':' {
			recv := line[:e]
			restl := line[e+1:]
			for _, meth := range []string{"add", "le_add", "append_text"} {
				if !strings.HasPrefix(restl, meth+"(") {
					continue
				}
				use(recv, "tree receiver", line)
				arg := restl[len(meth)+1:]
				if meth == "append_text" {
					break
				}
				w, tail := luaBufWidth(arg)
				if w == "" || strings.TrimSpace(tail) != ")" {
					break
				}
				first := strings.TrimSpace(arg[:strings.Index(arg, "buf(offset, ")])
				first = strings.TrimSuffix(first, ",")
				switch {
				case strings.HasPrefix(first, "fields."):
					use(w, "read width", line)
					read(w, line)
					a.Reads = append(a.Reads, luaRead{Line: line, Kind: "display", Recv: recv, Method: meth, Target: first, Width: w, Function: curFn})
				case strings.HasPrefix(first, "\""):
					if loc := luaConcatRe.FindStringIndex(first); loc != nil {
						use(first[loc[1]:], "displayed variable", line)
					}
					use(w, "read width", line)
					read(w, line)
				}
				break
			}
		}
	}
	flush("the end of the text")
	return a
}

// cfgCombos: the (string prefix, list prefix, byte order) combinations consistent with a path
// condition, by evaluation of its configuration atoms.
type luaCombo struct {
	Str, List string
	LE        bool
}

func luaCombos(pc []*Term) []luaCombo {
	var out []luaCombo
	for _, sp := range []string{"u8", "u16", "u32", "u64"} {
		for _, lp := range []string{"u8", "u16", "u32", "u64"} {
			for _, le := range []bool{false, true} {
				env := cenv{"in.cfg.StrPrefix": sp, "in.cfg.ListPrefix": lp, "in.cfg.LE": le}
				ok := true
				for _, c := range pc {
					if v, known := evalTerm(c, env); known {
						if b, isb := v.(bool); isb && !b {
							ok = false
							break
						}
					}
				}
				if ok {
					out = append(out, luaCombo{sp, lp, le})
				}
			}
		}
	}
	return out
}

// luaWidthIssues: the width / accessor expectations of one cell on one text, for one configuration.
// fieldMark / lengthMark: substrings identifying the field under test and its declared length in the
// text (symbolic atoms, or the concrete names of the replay).
func luaWidthIssues(a *luaAnalysis, c emitCell, cfg luaCombo, fieldMark, lengthMark string) []string {
	var out []string
	locals := map[string]luaRead{}
	for _, r := range a.Reads {
		if r.Kind == "local" {
			locals[r.Target] = r
		}
	}
	prefix := func(name, typ, what string) {
		r, ok := locals[name]
		if !ok {
			out = append(out, fmt.Sprintf("the %s `%s` is never fetched from the buffer", what, name))
			return
		}
		if r.Width != fmt.Sprint(luaWireSize[typ]) {
			out = append(out, fmt.Sprintf("the %s is fetched with width %s, the configured prefix type %s occupies %d bytes: %s", what, r.Width, typ, luaWireSize[typ], r.Line))
		}
		if want := luaPrefixAccessor(typ, cfg.LE); r.Method != want {
			out = append(out, fmt.Sprintf("the %s is fetched with %s(), the configured prefix type %s and byte order need %s(): %s", what, r.Method, typ, want, r.Line))
		}
	}
	seen := false
	for _, r := range a.Reads {
		if r.Kind != "display" || !strings.Contains(r.Target, fieldMark) {
			continue
		}
		seen = true
		switch c.Kind {
		case "basic", "order", "length", "checksum":
			if sz, ok := luaWireSize[c.Typ]; ok {
				if r.Width != fmt.Sprint(sz) {
					out = append(out, fmt.Sprintf("a %s field occupies %d bytes but is displayed over %s: %s", c.Typ, sz, r.Width, r.Line))
				}
				if sz > 1 {
					if want := map[bool]string{false: "add", true: "le_add"}[cfg.LE]; r.Method != want {
						out = append(out, fmt.Sprintf("LittleEndian=%v needs %s for a %d-byte field: %s", cfg.LE, want, sz, r.Line))
					}
				}
			}
		case "fixed":
			if !strings.Contains(r.Width, lengthMark) {
				out = append(out, fmt.Sprintf("a char[n] field occupies its declared n bytes but is displayed over %s: %s", r.Width, r.Line))
			}
		case "dynamic":
			if luaIsNumber(r.Width) {
				out = append(out, fmt.Sprintf("a string field occupies the number of bytes its prefix announces but is displayed over the constant %s: %s", r.Width, r.Line))
			} else {
				prefix(r.Width, cfg.Str, "string length prefix")
			}
		}
		if c.Repeat {
			// the enclosing loop bound is checked through the locals: exactly one *_size local
			n := 0
			for name := range locals {
				if strings.HasSuffix(name, "_size") && strings.Contains(name, fieldMark) {
					n++
					prefix(name, cfg.List, "array length prefix")
				}
			}
			if n == 0 {
				out = append(out, "the array length prefix of the repeated field is never fetched")
			}
		}
	}
	switch c.Kind {
	case "basic", "order", "length", "checksum", "fixed", "dynamic":
		if !seen {
			out = append(out, "no step displays the field")
		}
	}
	sort.Strings(out)
	return out
}

// luaSpecialise: the text under one configuration (prefix types and byte order substituted, table
// lookups and integer formatting of constants folded).
func luaSpecialise(t *Term, cb luaCombo) *Term {
	m := map[*Term]*Term{Sym("in.cfg.StrPrefix", SStr): Str(cb.Str), Sym("in.cfg.ListPrefix", SStr): Str(cb.List), Sym("in.cfg.LE", SBool): Bool(cb.LE)}
	memo := map[*Term]*Term{}
	var rec func(*Term) *Term
	rec = func(x *Term) *Term {
		if r, ok := m[x]; ok {
			return r
		}
		if len(x.Args) == 0 {
			return x
		}
		if r, ok := memo[x]; ok {
			return r
		}
		args := make([]*Term, len(x.Args))
		changed := false
		for i, a := range x.Args {
			args[i] = rec(a)
			changed = changed || args[i] != a
		}
		r := x
		if changed {
			r = rebuild(x, args)
		}
		if r.K == KApp && r.Name == "fmt.int.d" && len(r.Args) == 1 && r.Args[0].K == KInt {
			r = Str(fmt.Sprint(r.Args[0].I))
		}
		memo[x] = r
		return r
	}
	return rec(t)
}

// luaCellObligations: the C15 predicates of one Lua cell run (main dissector, sub dissector).
func luaCellObligations(base string, r emitRun) []emitObl {
	if r.entry.Dir == "fielddef" {
		return nil
	}
	iss := map[string]map[string]bool{}
	note := func(k string, l []string) {
		if iss[k] == nil {
			iss[k] = map[string]bool{}
		}
		for _, x := range l {
			iss[k][x] = true
		}
	}
	feasible := 0
	for _, p := range r.paths {
		combos := luaCombos(p.pc)
		if len(combos) == 0 {
			continue // no documented option value satisfies the path condition
		}
		feasible++
		for _, cb := range combos {
			text := flatText(luaSpecialise(p.text, cb))
			a := analyseLua(text)
			for _, k := range []string{"advance", "nested", "scope"} {
				note(k, a.Issues[k])
			}
			note("width", luaWidthIssues(a, r.cell, cb, "in.f.Name", "in.f.Length"))
			if r.cell.Kind == "inline" && r.entry.Dir == "dec" {
				// the dissector of an inline packet is emitted by the same call (in the sub dissector the
				// recursive call is summarised, its text is not visible): it must precede its use
				for _, d := range a.Issues["defined"] {
					if strings.Contains(d, "in.inl.Name") {
						note("inline-defined", []string{d})
					}
				}
			}
			if r.entry.Dir == "sub" {
				note("returns", luaReturnsIssues(text))
			}
			if r.cell.Kind == "match" {
				for i := 0; i < 4; i++ {
					if k := fmt.Sprintf("== <in.mp%d.Key>", i); !strings.Contains(text, k) {
						note("key-compared", []string{fmt.Sprintf("key %d of the table is never the right-hand side of a comparison with the key variable (`%s` does not occur): its alternative is not selected by its own key", i, k)})
					}
				}
			}
		}
	}
	desc := map[string]string{
		"advance":        "every read buf(offset, W) of a step is followed by offset = offset + W with the same W",
		"nested":         "the offset returned by a nested dissector is assigned to offset",
		"scope":          "every variable a step uses is a parameter or a local of the emitted function",
		"width":          "the displayed width is the wire size of the declared type; prefixes are fetched with the size and accessor of the configured prefix type and byte order",
		"returns":        "the emitted sub dissector returns the offset it reached",
		"key-compared":   "every key of the match table is compared with the key variable (`k == key`)",
		"inline-defined": "the `local function` of an inline packet's dissector precedes, in the emitted text, every call of it",
	}
	kinds := []string{"advance", "nested", "scope", "width"}
	if r.entry.Dir == "sub" {
		kinds = append(kinds, "returns")
	}
	if r.cell.Kind == "inline" && r.entry.Dir == "dec" {
		kinds = append(kinds, "inline-defined")
	}
	if r.cell.Kind == "match" {
		kinds = append(kinds, "key-compared")
	}
	var out []emitObl
	if feasible == 0 {
		return []emitObl{{Name: base + ":advance", Props: []string{"C15"}, OK: false, Detail: "no result path is consistent with any documented option value"}}
	}
	for _, k := range kinds {
		var l []string
		for x := range iss[k] {
			l = append(l, x)
		}
		sort.Strings(l)
		d := desc[k]
		if len(l) > 0 {
			d += ": " + truncate(strings.Join(l, " | "), 700)
		}
		out = append(out, emitObl{Name: base + ":" + k, Props: []string{"C15"}, OK: len(l) == 0, Detail: d})
	}
	return out
}

// luaReturnsIssues: the last statement of the last function of the text is `return offset`.
func luaReturnsIssues(text string) []string {
	var lines []string
	for _, l := range strings.Split(text, "\n") {
		if t := strings.TrimSpace(l); t != "" {
			lines = append(lines, t)
		}
	}
	n := len(lines)
	if n >= 2 && lines[n-1] == "end" && lines[n-2] == "return offset" {
		return nil
	}
	return []string{"the emitted function does not end in `return offset`: its caller cannot continue behind the nested packet"}
}

// luaDefinesObligations: every fields.X a dissector cell displays is a key the field-definition
// emitter defines for the same cell (`X = ProtoField...`).
func luaDefinesObligations(decs, defs map[string]emitRun) []emitObl {
	var ids []string
	for id := range decs {
		ids = append(ids, id)
	}
	sort.Strings(ids)
	var out []emitObl
	for _, id := range ids {
		def, ok := defs[id]
		if !ok {
			continue
		}
		defined := map[string]bool{}
		for _, p := range def.paths {
			if len(luaCombos(p.pc)) == 0 {
				continue
			}
			here := luaProtoFieldKeys(flatText(p.text))
			if len(defined) == 0 {
				defined = here
				continue
			}
			for k := range defined { // keys defined on every feasible path
				if !here[k] {
					delete(defined, k)
				}
			}
		}
		var missing []string
		for _, p := range decs[id].paths {
			if len(luaCombos(p.pc)) == 0 {
				continue
			}
			for _, r := range analyseLua(flatText(p.text)).Reads {
				if r.Kind == "display" && r.Function != "" && !strings.HasPrefix(r.Function, "dissect_") {
					if k := strings.TrimPrefix(r.Target, "fields."); !defined[k] {
						missing = append(missing, k)
					}
				}
			}
		}
		sort.Strings(missing)
		d := "every fields.X the dissector displays is defined by the field-definition emitter"
		if len(missing) > 0 {
			d += ": undefined " + truncate(strings.Join(missing, ", "), 400)
		}
		out = append(out, emitObl{Name: "EMIT:lua:fielddef:" + id + ":defines", Props: []string{"C15"}, OK: len(missing) == 0, Detail: d})
	}
	return out
}

func luaProtoFieldKeys(text string) map[string]bool {
	out := map[string]bool{}
	for _, l := range strings.Split(text, "\n") {
		l = strings.TrimSpace(l)
		if e := luaIdentAt(l, 0); e > 0 && strings.HasPrefix(l[e:], " = ProtoField.") {
			out[l[:e]] = true
		}
	}
	return out
}

// ---------------------------------------------------------------- bounded: whole files of the real generator

type luaProgram struct{ Name, DSL string }

// luaPrograms: enumerated program shapes (declaration order x reference kind x nesting).
func luaPrograms() []luaProgram {
	return []luaProgram{
		{"object-declared-before-use", "packet Inner { u16 a, }\npacket Outer { Inner i, u8 t, }\nroot packet R { Outer o, u32 tail, }\n"},
		{"object-declared-after-use", "packet Outer { Inner i, u8 t, }\npacket Inner { u16 a, }\nroot packet R { Outer o, u32 tail, }\n"},
		{"root-first", "root packet R { Outer o, repeat Inner list, u32 tail, }\npacket Inner { u16 a, }\npacket Outer { u8 t, }\n"},
		{"match-declared-before-use", "packet A { u8 a, }\npacket B { string s, }\npacket Body { u16 kind, match kind as payload { 1 : A, 2 : B, }, }\nroot packet R { Body b, u32 checksum, }\n"},
		{"match-declared-after-use", "packet Body { u16 kind, match kind as payload { 1 : A, 2 : B, }, }\npacket A { u8 a, }\npacket B { string s, }\nroot packet R { Body b, u32 checksum, }\n"},
		{"inline-two-levels", "root packet R { u8 h, outer { u16 x, inner { u32 y, char[4] z, }, }, u8 t, }\n"},
		{"repeats", "options { LittleEndian = true; ArrayPrefixLenType = u32; StringPrefixLenType = u8; }\npacket Item { u8 b, string s, }\nroot packet R { repeat Item items, repeat string names, repeat group { u16 g, }, repeat char[3] codes, u64 tail, }\n"},
		{"root-match-with-trailer", "root packet R { u16 kind, u32 len, match kind as body { 1 : A, 2 : B, }, u32 checksum, }\npacket A { u8 a, }\npacket B { repeat u16 b, }\n"},
		{"empty-packet-as-object", "packet Marker { }\npacket Holder { u8 a, Marker m, u16 b, }\nroot packet R { Marker first, Holder h, repeat Marker marks, u32 tail, }\n"},
		{"same-inline-name-twice", "packet Quote { repeat Entry { u32 Price, u16 Qty, }, }\npacket Trade { Entry { char[8] Account, u8 Side, }, }\nroot packet R { Quote q, Trade t, }\n"},
		{"object-used-twice", "packet Leaf { u8 v, }\npacket Left { Leaf l, }\npacket Right { Leaf l, repeat Leaf more, }\nroot packet R { Left a, Right b, Leaf c, }\n"},
		{"inline-refers-to-later-packet", "packet Order { u32 id, Leg { u16 qty, Price px, }, repeat Fill { Price at, u8 n, }, }\npacket Price { u32 p, }\nroot packet R { Order o, }\n"},
		{"match-in-inline-to-later-packet", "packet Env { u8 kind, body { u16 k, match k as alt { 1 : X, 2 : Y, }, }, }\npacket X { u8 x, }\npacket Y { u8 y, }\nroot packet R { Env e, u32 tail, }\n"},
		{"chain-of-three", "packet C { u8 c, }\npacket B { C c, }\npacket A { B b, }\nroot packet R { A a, }\n"},
		{"chain-of-three-reversed", "packet A { B b, }\npacket B { C c, }\npacket C { u8 c, }\nroot packet R { A a, }\n"},
	}
}

// luaFileObligations: the real LuaWspGenerator.Generate on each program; advance / scope / defined
// on the whole file.  Bounded: never counted as proved.
func luaFileObligations() []emitObl {
	props := []string{"C15"}
	var reqs []cellReq
	for _, p := range luaPrograms() {
		reqs = append(reqs, cellReq{ID: p.Name, Lang: "lua", Dir: "file", DSL: p.DSL})
	}
	res, err := runCells(reqs)
	if err != nil {
		return []emitObl{{Name: "BOUNDED:C15:file:harness", Props: props, OK: false, Detail: err.Error()}}
	}
	var out []emitObl
	for _, p := range luaPrograms() {
		r := res[p.Name]
		if r.Err != "" || r.Text == "" {
			out = append(out, emitObl{Name: "BOUNDED:C15:file:" + p.Name + ":run", Props: props, OK: false, Detail: "the real generator could not be run on the program: " + r.Err + "\n" + p.DSL})
			continue
		}
		a := analyseLua(r.Text)
		a.Issues["defines"] = luaFileDefinesIssues(r.Text, a)
		a.Issues["returns"] = luaFileReturnsIssues(r.Text)
		for _, k := range []string{"advance", "scope", "defined", "defines", "returns"} {
			l := a.Issues[k]
			d := map[string]string{"advance": "every read is followed by an advance of the same width", "scope": "every variable used is a parameter or local of its function",
				"defined": "a `local function dissect_x` precedes, in the text, every call of dissect_x", "defines": "every fields.X a step displays is a key of the fields table",
				"returns": "every `local function dissect_x` ends in `return offset`"}[k]
			if len(l) > 0 {
				d += ": " + truncate(strings.Join(l, " | "), 600) + "\ninput:\n" + p.DSL
			}
			o := emitObl{Name: "BOUNDED:C15:file:" + p.Name + ":" + k, Props: props, OK: len(l) == 0, Detail: d}
			if len(l) > 0 {
				o.Replay = map[string]interface{}{"reproduced": true, "input": p.DSL, "entry": "(parser.LuaWspGenerator).Generate on the model ParseFile builds (real code, go test -overlay)",
					"observed": strings.Join(l, " | "), "emitted": truncate(r.Text, 6000)}
			}
			out = append(out, o)
		}
	}
	return out
}

// luaFileDefinesIssues: every fields.X displayed anywhere in the file is defined in the fields table.
func luaFileDefinesIssues(text string, a *luaAnalysis) []string {
	defined := luaProtoFieldKeys(text)
	seen := map[string]bool{}
	var out []string
	for _, r := range a.Reads {
		if r.Kind != "display" {
			continue
		}
		if k := strings.TrimPrefix(r.Target, "fields."); !defined[k] && !seen[k] {
			seen[k] = true
			out = append(out, fmt.Sprintf("%s displays fields.%s, which the fields table does not define", r.Function, k))
		}
	}
	return out
}

// luaFileReturnsIssues: every `local function dissect_x(...)` of the file ends in `return offset`.
func luaFileReturnsIssues(text string) []string {
	var out []string
	var cur string
	depth := 0
	last := ""
	for _, raw := range strings.Split(text, "\n") {
		l := strings.TrimSpace(raw)
		if l == "" || strings.HasPrefix(l, "--") {
			continue
		}
		if h := luaFuncHeader(l); h != nil {
			if depth == 0 && h[1] != "" && strings.HasPrefix(h[2], "dissect_") {
				cur = h[2]
			}
			depth++
			last = ""
			continue
		}
		switch {
		case luaForRe.MatchString(l), strings.HasPrefix(l, "if ") && strings.Contains(l, " then"):
			depth++
		case l == "end":
			depth--
			if depth == 0 && cur != "" {
				if last != "return offset" {
					out = append(out, fmt.Sprintf("%s does not end in `return offset` (last statement: %q): its callers assign its result to offset", cur, last))
				}
				cur = ""
			}
		}
		last = l
	}
	return out
}
