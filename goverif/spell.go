package main

// Obligations of property C08 ("generated code depends on meaning, not spelling") that are not
// ordinary pre/postconditions:
//
//   ALIAS   for every basic-type token of the grammar (rule basicType) with several spellings, the real
//           normalisation functions (model.getBasicType and the GetType methods of the attribute types that
//           keep a type spelling) are executed symbolically on each spelling as a literal argument: all
//           spellings of one token must yield one name, different tokens different names.  The function is
//           loop-free and the argument domain is the lexer's finite alias table read from the grammar on
//           every run, so this is a complete proof for the alias table, not a sample.
//   READS   reads-frame of the code generators: no generator function (phase B) and no model function they
//           call loads a location that records spelling or layout only - Field.Doc/Line/Column,
//           Packet.Line/Column, MetaData.Description/Line/Column, MatchPair.Line/Column - and the raw type
//           spellings BasicFieldAttribute.Type, LengthFieldAttribute.LengthType, CheckSumFieldAttribute.Type,
//           LengthOfAttribute.Type are loaded only inside the GetType normalisers.  One obligation per
//           function, decided on the SSA (every FieldAddr / Field instruction of the function): an
//           over-approximation of what the function can read.
//           For the model builder (visitor): no call of a hidden-channel accessor or of the optional
//           separator accessors COMMA() / SEMICOLON(): whitespace, comments and separators cannot reach
//           the model.

import (
	"fmt"
	"go/types"
	"sort"
	"strings"

	"golang.org/x/tools/go/ssa"
)

// runCall: symbolic execution of fn on the given argument values, from the initial heap.
func (e *Engine) runCall(fn *ssa.Function, args []Value) (res []pathResult, errMsg string) {
	defer func() {
		if r := recover(); r != nil {
			if ee, ok := r.(execError); ok {
				errMsg = ee.msg
				return
			}
			errMsg = fmt.Sprintf("internal error: %v", r)
		}
	}()
	s := &State{heap: e.initHeap.clone(), nalloc: new(int), copies: map[int64]*arrCopy{}, allocTy: map[int64]string{}}
	*s.nalloc = e.initAlloc
	for k, v := range e.initCopies {
		s.copies[k] = v
	}
	e.curEntry = fn
	e.curPhaseB = false
	e.curFramed = false
	e.paths = 0
	fr := &Frame{fn: fn, regs: map[ssa.Value]Value{}, loops: map[*ssa.BasicBlock]*loopEntry{}, block: fn.Blocks[0]}
	s.frames = []*Frame{fr}
	if len(args) != len(fn.Params) {
		return nil, fmt.Sprintf("%s takes %d parameters", fn, len(fn.Params))
	}
	for i, p := range fn.Params {
		fr.regs[p] = args[i]
		fr.params = append(fr.params, args[i])
	}
	fr.oldHeap = s.heap.clone()
	return e.runEntry(s), ""
}

// structWith: the flattened value of struct type t, all slots zero except the string field `field`.
func (e *Engine) structWith(t types.Type, field string, v *Term) Value {
	var out Value
	for _, sl := range e.layout(t) {
		if sl.Suffix == "."+field {
			out = append(out, v)
		} else {
			out = append(out, zeroOf(sl.Sort))
		}
	}
	return out
}

type spellNormaliser struct {
	fn    string // ssa function name
	recvT string // model type name of the value receiver ("" for a plain function)
	field string // the field holding the spelling
}

var spellNormalisers = []spellNormaliser{
	{modelPkgPath + ".getBasicType", "", ""},
	{"(" + modelPkgPath + ".BasicFieldAttribute).GetType", "BasicFieldAttribute", "Type"},
	{"(" + modelPkgPath + ".LengthFieldAttribute).GetType", "LengthFieldAttribute", "LengthType"},
	{"(" + modelPkgPath + ".CheckSumFieldAttribute).GetType", "CheckSumFieldAttribute", "Type"},
	{"(" + modelPkgPath + ".LengthOfAttribute).GetType", "LengthOfAttribute", "Type"},
}

// aliasClasses: token name -> spellings, for the alternatives of grammar rule basicType.
func (e *Engine) aliasClasses() (names []string, classes map[string][]string) {
	classes = map[string][]string{}
	if r := e.tree.rules["basicType"]; r != nil {
		for _, a := range r.alts {
			if len(a.elems) == 1 && a.elems[0].kind == "token" {
				if lits := e.tree.tokLits[a.elems[0].name]; len(lits) > 0 {
					classes[a.elems[0].name] = lits
					names = append(names, a.elems[0].name)
				}
			}
		}
	}
	sort.Strings(names)
	return
}

func mkObl(name, kind, fn, desc string, ok bool, note string) *Obligation {
	o := &Obligation{Name: name, Kind: kind, Func: fn, Desc: desc, Backend: "concrete-evaluation", Status: "proved"}
	if !ok {
		o.Status = "failed"
		o.Fail = &OblInstance{Goal: False, Res: SolveResult{Verdict: "sat", Backend: "concrete-evaluation", Raw: note}, Note: note}
	}
	return o
}

func (e *Engine) aliasObligations() []*Obligation {
	var out []*Obligation
	names, classes := e.aliasClasses()
	if len(names) == 0 {
		return []*Obligation{mkObl("ALIAS:grammar:basicType", "ALIAS", "grammar", "rule basicType lists the type tokens", false, "no alternatives of rule basicType with literal spellings were found in the grammar")}
	}
	for _, nz := range spellNormalisers {
		fn := e.findFunc(nz.fn)
		short := strings.TrimPrefix(strings.ReplaceAll(nz.fn, modelPkgPath, "model"), "")
		if fn == nil {
			out = append(out, mkObl("ALIAS:"+short+":present", "ALIAS", nz.fn, "the normaliser exists", false, "function "+nz.fn+" not found"))
			continue
		}
		canon := map[string]string{} // token -> canonical name
		for _, tok := range names {
			var results []string
			note := ""
			for _, sp := range classes[tok] {
				var args []Value
				if nz.recvT == "" {
					args = []Value{{Str(sp)}}
				} else {
					args = []Value{e.structWith(e.mtype(nz.recvT), nz.field, Str(sp))}
				}
				res, err := e.runCall(fn, args)
				switch {
				case err != "":
					note += fmt.Sprintf("%q: %s; ", sp, err)
				case len(res) != 1 || len(res[0].ret) != 1 || len(res[0].ret[0]) != 1 || res[0].ret[0][0].K != KStrLit:
					note += fmt.Sprintf("%q: no single literal result (%d paths); ", sp, len(res))
				default:
					results = append(results, res[0].ret[0][0].Name)
				}
			}
			ok := note == "" && len(results) == len(classes[tok])
			for _, r := range results {
				if r != results[0] {
					ok = false
				}
			}
			if ok {
				canon[tok] = results[0]
			} else if note == "" {
				note = fmt.Sprintf("spellings %q normalise to %q", classes[tok], results)
			}
			out = append(out, mkObl(fmt.Sprintf("ALIAS:%s:%s", short, tok), "ALIAS", nz.fn,
				fmt.Sprintf("all spellings %q of token %s normalise to one name", classes[tok], tok), ok, note))
		}
		// different tokens, different names
		seen := map[string]string{}
		okD, noteD := true, ""
		for _, tok := range names {
			c, have := canon[tok]
			if !have {
				continue
			}
			if other, dup := seen[c]; dup {
				okD = false
				noteD += fmt.Sprintf("%s and %s both normalise to %q; ", other, tok, c)
			}
			seen[c] = tok
		}
		out = append(out, mkObl("ALIAS:"+short+":distinct", "ALIAS", nz.fn, "different type tokens normalise to different names", okD, noteD))
	}
	return out
}

// ---------------------------------------------------------------- READS

var spellOnlyFields = map[string]map[string]bool{
	"Field":     {"Doc": true, "Line": true, "Column": true},
	"Packet":    {"Line": true, "Column": true},
	"MetaData":  {"Description": true, "Line": true, "Column": true},
	"MatchPair": {"Line": true, "Column": true},
}

var rawSpellingFields = map[string]string{ // struct -> field holding a raw type spelling
	"BasicFieldAttribute": "Type", "LengthFieldAttribute": "LengthType", "CheckSumFieldAttribute": "Type", "LengthOfAttribute": "Type",
}

func modelStructName(t types.Type) string {
	if p, ok := t.Underlying().(*types.Pointer); ok {
		t = p.Elem()
	}
	n, ok := t.(*types.Named)
	if !ok || n.Obj().Pkg() == nil || n.Obj().Pkg().Path() != modelPkgPath {
		return ""
	}
	if _, ok := n.Underlying().(*types.Struct); !ok {
		return ""
	}
	return n.Obj().Name()
}

// onlyStored: every use of the field address is a store through it (initialising an own object).
func onlyStored(v ssa.Value) bool {
	refs := v.Referrers()
	if refs == nil {
		return false
	}
	for _, r := range *refs {
		st, ok := r.(*ssa.Store)
		if !ok || st.Addr != v {
			return false
		}
	}
	return true
}

func (e *Engine) readsObligations() []*Obligation {
	// generator functions and the model functions reachable from them
	work := []*ssa.Function{}
	seen := map[*ssa.Function]bool{}
	for _, fn := range e.allRepoFunctions() {
		if e.cfg.PhaseB(fn) {
			work = append(work, fn)
			seen[fn] = true
		}
	}
	for i := 0; i < len(work); i++ {
		for _, c := range e.staticCallees(work[i]) {
			if !seen[c] && c.Pkg != nil && c.Pkg.Pkg.Path() == modelPkgPath {
				seen[c] = true
				work = append(work, c)
			}
		}
	}
	sort.Slice(work, func(i, j int) bool { return work[i].String() < work[j].String() })
	var out []*Obligation
	for _, fn := range work {
		normaliser := fn.Name() == "GetType" || fn.Name() == "getBasicType"
		var bad []string
		scan := func(f *ssa.Function) {
			for _, b := range f.Blocks {
				for _, in := range b.Instrs {
					var st, field string
					var val ssa.Value
					switch x := in.(type) {
					case *ssa.FieldAddr:
						st = modelStructName(x.X.Type())
						if s, ok := x.X.Type().Underlying().(*types.Pointer); ok {
							if su, ok := s.Elem().Underlying().(*types.Struct); ok {
								field = su.Field(x.Field).Name()
							}
						}
						val = x
					case *ssa.Field:
						st = modelStructName(x.X.Type())
						if su, ok := x.X.Type().Underlying().(*types.Struct); ok {
							field = su.Field(x.Field).Name()
						}
					default:
						continue
					}
					if st == "" {
						continue
					}
					if val != nil && onlyStored(val) {
						continue
					}
					if spellOnlyFields[st][field] {
						bad = append(bad, fmt.Sprintf("%s.%s (%s)", st, field, e.prog.Fset.Position(in.Pos())))
					}
					if rawSpellingFields[st] == field && !normaliser {
						bad = append(bad, fmt.Sprintf("raw spelling %s.%s (%s)", st, field, e.prog.Fset.Position(in.Pos())))
					}
				}
			}
		}
		scan(fn)
		for _, an := range fn.AnonFuncs {
			scan(an)
		}
		out = append(out, mkObl("READS:"+e.shortFunc(fn)+":spelling-free", "READS", fn.String(),
			"the function loads no location that records only spelling, position or documentation of the DSL text", len(bad) == 0, strings.Join(bad, "; ")))
	}
	// the model builder never looks at the hidden channel or at optional separators
	for _, fn := range e.allRepoFunctions() {
		if fn.Signature.Recv() == nil || !strings.Contains(fn.Signature.Recv().Type().String(), "PacketDslVisitorImpl") {
			continue
		}
		var bad []string
		for _, b := range fn.Blocks {
			for _, in := range b.Instrs {
				c, ok := in.(ssa.CallInstruction)
				if !ok {
					continue
				}
				var name string
				if c.Common().IsInvoke() {
					name = c.Common().Method.Name()
				} else if sc := c.Common().StaticCallee(); sc != nil {
					name = sc.Name()
				}
				switch name {
				case "GetHiddenTokensToLeft", "GetHiddenTokensToRight", "COMMA", "AllCOMMA", "SEMICOLON", "AllSEMICOLON":
					bad = append(bad, fmt.Sprintf("%s (%s)", name, e.prog.Fset.Position(in.Pos())))
				}
			}
		}
		out = append(out, mkObl("READS:"+e.shortFunc(fn)+":layout-free", "READS", fn.String(),
			"the model builder calls no hidden-channel or optional-separator accessor", len(bad) == 0, strings.Join(bad, "; ")))
	}
	return out
}
