package main

// Obligations of property C08 ("generated code depends on meaning, not spelling") that are not
// ordinary pre/postconditions:
//
//   ALIAS   for every basic-type token of the grammar (rule basicType) with several spellings, the real
//           normalisation functions (model.getBasicType and the GetType methods of the attribute types that
//           keep a type spelling) are executed symbolically on each spelling as a literal argument: all
//           spellings of one token must yield one name, different tokens different names.  The function is
//           loop-free and the argument domain is the lexer's finite alias table read from the grammar on
//           every run, so this is a complete proof for the alias table, not a sample.
//   READS   reads-frame of the code generators: no generator function (phase B) and no model function they
//           call loads a location that records spelling or layout only - Field.Doc/Line/Column,
//           Packet.Line/Column, MetaData.Description/Line/Column, MatchPair.Line/Column - and the raw type
//           spellings BasicFieldAttribute.Type, LengthFieldAttribute.LengthType, CheckSumFieldAttribute.Type,
//           LengthOfAttribute.Type are loaded only inside the GetType normalisers.  One obligation per
//           function, decided on the SSA (every FieldAddr / Field instruction of the function): an
//           over-approximation of what the function can read.
//           For the model builder (visitor): no call of a hidden-channel accessor or of the optional
//           separator accessors COMMA() / SEMICOLON(): whitespace, comments and separators cannot reach
//           the model.

import (
	"bufio"
	"encoding/json"
	"fmt"
	"go/token"
	"go/types"
	"os"
	"os/exec"
	"path/filepath"
	"sort"
	"strings"
	"unicode"

	"golang.org/x/tools/go/ssa"
)

// runCall: symbolic execution of fn on the given argument values, from the initial heap.
func (e *Engine) runCall(fn *ssa.Function, args []Value) (res []pathResult, errMsg string) {
	defer func() {
		if r := recover(); r != nil {
			if ee, ok := r.(execError); ok {
				errMsg = ee.msg
				return
			}
			errMsg = fmt.Sprintf("internal error: %v", r)
		}
	}()
	s := &State{heap: e.initHeap.clone(), nalloc: new(int), copies: map[int64]*arrCopy{}, allocTy: map[int64]string{}}
	*s.nalloc = e.initAlloc
	for k, v := range e.initCopies {
		s.copies[k] = v
	}
	e.curEntry = fn
	e.curPhaseB = false
	e.curFramed = false
	e.paths = 0
	e.steps = 0
	fr := &Frame{fn: fn, regs: map[ssa.Value]Value{}, loops: map[*ssa.BasicBlock]*loopEntry{}, block: fn.Blocks[0]}
	s.frames = []*Frame{fr}
	if len(args) != len(fn.Params) {
		return nil, fmt.Sprintf("%s takes %d parameters", fn, len(fn.Params))
	}
	for i, p := range fn.Params {
		fr.regs[p] = args[i]
		fr.params = append(fr.params, args[i])
	}
	fr.oldHeap = s.heap.clone()
	return e.runEntry(s), ""
}

// structWith: the flattened value of struct type t, all slots zero except the string field `field`.
func (e *Engine) structWith(t types.Type, field string, v *Term) Value {
	var out Value
	for _, sl := range e.layout(t) {
		if sl.Suffix == "."+field {
			out = append(out, v)
		} else {
			out = append(out, zeroOf(sl.Sort))
		}
	}
	return out
}

type spellNormaliser struct {
	fn    string // ssa function name
	recvT string // model type name of the value receiver ("" for a plain function)
	field string // the field holding the spelling
}

var spellNormalisers = []spellNormaliser{
	{modelPkgPath + ".getBasicType", "", ""},
	{"(" + modelPkgPath + ".BasicFieldAttribute).GetType", "BasicFieldAttribute", "Type"},
	{"(" + modelPkgPath + ".LengthFieldAttribute).GetType", "LengthFieldAttribute", "LengthType"},
	{"(" + modelPkgPath + ".CheckSumFieldAttribute).GetType", "CheckSumFieldAttribute", "Type"},
	{"(" + modelPkgPath + ".LengthOfAttribute).GetType", "LengthOfAttribute", "Type"},
}

// aliasClasses: token name -> spellings, for the alternatives of grammar rule basicType.
func (e *Engine) aliasClasses() (names []string, classes map[string][]string) {
	classes = map[string][]string{}
	if r := e.tree.rules["basicType"]; r != nil {
		for _, a := range r.alts {
			if len(a.elems) == 1 && a.elems[0].kind == "token" {
				if lits := e.tree.tokLits[a.elems[0].name]; len(lits) > 0 {
					classes[a.elems[0].name] = lits
					names = append(names, a.elems[0].name)
				}
			}
		}
	}
	sort.Strings(names)
	return
}

func mkObl(name, kind, fn, desc string, ok bool, note string) *Obligation {
	o := &Obligation{Name: name, Kind: kind, Func: fn, Desc: desc, Backend: "concrete-evaluation", Status: "proved"}
	if !ok {
		o.Status = "failed"
		o.Fail = &OblInstance{Goal: False, Res: SolveResult{Verdict: "sat", Backend: "concrete-evaluation", Raw: note}, Note: note}
	}
	return o
}

func (e *Engine) aliasObligations() []*Obligation {
	var out []*Obligation
	names, classes := e.aliasClasses()
	if len(names) == 0 {
		return []*Obligation{mkObl("ALIAS:grammar:basicType", "ALIAS", "grammar", "rule basicType lists the type tokens", false, "no alternatives of rule basicType with literal spellings were found in the grammar")}
	}
	for _, nz := range spellNormalisers {
		fn := e.findFunc(nz.fn)
		short := strings.TrimPrefix(strings.ReplaceAll(nz.fn, modelPkgPath, "model"), "")
		if fn == nil {
			out = append(out, mkObl("ALIAS:"+short+":present", "ALIAS", nz.fn, "the normaliser exists", false, "function "+nz.fn+" not found"))
			continue
		}
		canon := map[string]string{} // token -> canonical name
		for _, tok := range names {
			var results []string
			note := ""
			for _, sp := range classes[tok] {
				var args []Value
				if nz.recvT == "" {
					args = []Value{{Str(sp)}}
				} else {
					args = []Value{e.structWith(e.mtype(nz.recvT), nz.field, Str(sp))}
				}
				res, err := e.runCall(fn, args)
				switch {
				case err != "":
					note += fmt.Sprintf("%q: %s; ", sp, err)
				case len(res) != 1 || len(res[0].ret) != 1 || len(res[0].ret[0]) != 1 || res[0].ret[0][0].K != KStrLit:
					note += fmt.Sprintf("%q: no single literal result (%d paths); ", sp, len(res))
				default:
					results = append(results, res[0].ret[0][0].Name)
				}
			}
			ok := note == "" && len(results) == len(classes[tok])
			for _, r := range results {
				if r != results[0] {
					ok = false
				}
			}
			if ok {
				canon[tok] = results[0]
			} else if note == "" {
				note = fmt.Sprintf("spellings %q normalise to %q", classes[tok], results)
			}
			out = append(out, mkObl(fmt.Sprintf("ALIAS:%s:%s", short, tok), "ALIAS", nz.fn,
				fmt.Sprintf("all spellings %q of token %s normalise to one name", classes[tok], tok), ok, note))
		}
		// different tokens, different names
		seen := map[string]string{}
		okD, noteD := true, ""
		for _, tok := range names {
			c, have := canon[tok]
			if !have {
				continue
			}
			if other, dup := seen[c]; dup {
				okD = false
				noteD += fmt.Sprintf("%s and %s both normalise to %q; ", other, tok, c)
			}
			seen[c] = tok
		}
		out = append(out, mkObl("ALIAS:"+short+":distinct", "ALIAS", nz.fn, "different type tokens normalise to different names", okD, noteD))
	}
	return out
}

// ---------------------------------------------------------------- READS

var spellOnlyFields = map[string]map[string]bool{
	"Field":     {"Doc": true, "Line": true, "Column": true},
	"Packet":    {"Line": true, "Column": true},
	"MetaData":  {"Description": true, "Line": true, "Column": true},
	"MatchPair": {"Line": true, "Column": true},
}

var rawSpellingFields = map[string]string{ // struct -> field holding a raw type spelling
	"BasicFieldAttribute": "Type", "LengthFieldAttribute": "LengthType", "CheckSumFieldAttribute": "Type", "LengthOfAttribute": "Type",
}

func modelStructName(t types.Type) string {
	if p, ok := t.Underlying().(*types.Pointer); ok {
		t = p.Elem()
	}
	n, ok := t.(*types.Named)
	if !ok || n.Obj().Pkg() == nil || n.Obj().Pkg().Path() != modelPkgPath {
		return ""
	}
	if _, ok := n.Underlying().(*types.Struct); !ok {
		return ""
	}
	return n.Obj().Name()
}

// onlyStored: every use of the field address is a store through it (initialising an own object).
func onlyStored(v ssa.Value) bool {
	refs := v.Referrers()
	if refs == nil {
		return false
	}
	for _, r := range *refs {
		st, ok := r.(*ssa.Store)
		if !ok || st.Addr != v {
			return false
		}
	}
	return true
}

func (e *Engine) readsObligations() []*Obligation {
	// generator functions and the model functions reachable from them
	work := []*ssa.Function{}
	seen := map[*ssa.Function]bool{}
	for _, fn := range e.allRepoFunctions() {
		if e.cfg.PhaseB(fn) {
			work = append(work, fn)
			seen[fn] = true
		}
	}
	for i := 0; i < len(work); i++ {
		for _, c := range e.staticCallees(work[i]) {
			if !seen[c] && c.Pkg != nil && c.Pkg.Pkg.Path() == modelPkgPath {
				seen[c] = true
				work = append(work, c)
			}
		}
	}
	sort.Slice(work, func(i, j int) bool { return work[i].String() < work[j].String() })
	var out []*Obligation
	for _, fn := range work {
		normaliser := fn.Name() == "GetType" || fn.Name() == "getBasicType"
		var bad []string
		scan := func(f *ssa.Function) {
			for _, b := range f.Blocks {
				for _, in := range b.Instrs {
					var st, field string
					var val ssa.Value
					switch x := in.(type) {
					case *ssa.FieldAddr:
						st = modelStructName(x.X.Type())
						if s, ok := x.X.Type().Underlying().(*types.Pointer); ok {
							if su, ok := s.Elem().Underlying().(*types.Struct); ok {
								field = su.Field(x.Field).Name()
							}
						}
						val = x
					case *ssa.Field:
						st = modelStructName(x.X.Type())
						if su, ok := x.X.Type().Underlying().(*types.Struct); ok {
							field = su.Field(x.Field).Name()
						}
					default:
						continue
					}
					if st == "" {
						continue
					}
					if val != nil && onlyStored(val) {
						continue
					}
					if spellOnlyFields[st][field] {
						bad = append(bad, fmt.Sprintf("%s.%s (%s)", st, field, e.prog.Fset.Position(in.Pos())))
					}
					if rawSpellingFields[st] == field && !normaliser {
						bad = append(bad, fmt.Sprintf("raw spelling %s.%s (%s)", st, field, e.prog.Fset.Position(in.Pos())))
					}
				}
			}
		}
		scan(fn)
		for _, an := range fn.AnonFuncs {
			scan(an)
		}
		out = append(out, mkObl("READS:"+e.shortFunc(fn)+":spelling-free", "READS", fn.String(),
			"the function loads no location that records only spelling, position or documentation of the DSL text", len(bad) == 0, strings.Join(bad, "; ")))
	}
	// the model builder never looks at the hidden channel or at optional separators
	for _, fn := range e.allRepoFunctions() {
		if fn.Signature.Recv() == nil || !strings.Contains(fn.Signature.Recv().Type().String(), "PacketDslVisitorImpl") {
			continue
		}
		var bad []string
		for _, b := range fn.Blocks {
			for _, in := range b.Instrs {
				c, ok := in.(ssa.CallInstruction)
				if !ok {
					continue
				}
				var name string
				if c.Common().IsInvoke() {
					name = c.Common().Method.Name()
				} else if sc := c.Common().StaticCallee(); sc != nil {
					name = sc.Name()
				}
				switch name {
				case "GetHiddenTokensToLeft", "GetHiddenTokensToRight", "COMMA", "AllCOMMA", "SEMICOLON", "AllSEMICOLON":
					bad = append(bad, fmt.Sprintf("%s (%s)", name, e.prog.Fset.Position(in.Pos())))
				}
			}
		}
		out = append(out, mkObl("READS:"+e.shortFunc(fn)+":layout-free", "READS", fn.String(),
			"the model builder calls no hidden-channel or optional-separator accessor", len(bad) == 0, strings.Join(bad, "; ")))
	}
	// the model builder takes the text of a parse-tree node only where that text cannot contain a doc
	// string or an optional separator: GetText() on a terminal / token, or on the context of a grammar
	// rule whose derivations contain neither (decided on the grammar: type, basicType, value, ...).
	// The text of a whole declaration (type + name + doc string) depends on how the author documented it.
	for _, fn := range e.allRepoFunctions() {
		if fn.Signature.Recv() == nil || !strings.Contains(fn.Signature.Recv().Type().String(), "PacketDslVisitorImpl") {
			continue
		}
		var bad []string
		scan := func(f *ssa.Function) {
			for _, b := range f.Blocks {
				for _, in := range b.Instrs {
					c, ok := in.(ssa.CallInstruction)
					if !ok {
						continue
					}
					var name string
					var recv ssa.Value
					if c.Common().IsInvoke() {
						name = c.Common().Method.Name()
						recv = c.Common().Value
					} else if sc := c.Common().StaticCallee(); sc != nil && len(c.Common().Args) > 0 && sc.Signature.Recv() != nil {
						name = sc.Name()
						recv = c.Common().Args[0]
					}
					if name != "GetText" || recv == nil {
						continue
					}
					rule, known := e.textReceiverRule(recv)
					if !known {
						bad = append(bad, fmt.Sprintf("GetText on %s (%s)", recv.Type(), e.prog.Fset.Position(in.Pos())))
						continue
					}
					if rule != "" && !e.tree.spellingClosed(rule, map[string]bool{}) {
						bad = append(bad, fmt.Sprintf("GetText on a whole %s (%s)", rule, e.prog.Fset.Position(in.Pos())))
					}
				}
			}
		}
		scan(fn)
		for _, an := range fn.AnonFuncs {
			scan(an)
		}
		out = append(out, mkObl("READS:"+e.shortFunc(fn)+":text-scope", "READS", fn.String(),
			"the model builder takes node text only from tokens and from rules that contain no doc string and no optional separator", len(bad) == 0, strings.Join(bad, "; ")))
	}
	return out
}

// textReceiverRule: the grammar rule behind the receiver of a GetText() call ("" for a terminal node or
// token); known=false when the receiver is neither (a generic tree interface).
func (e *Engine) textReceiverRule(v ssa.Value) (rule string, known bool) {
	for {
		switch x := v.(type) {
		case *ssa.FieldAddr:
			v = x.X
			continue
		case *ssa.ChangeInterface:
			v = x.X
			continue
		case *ssa.MakeInterface:
			v = x.X
			continue
		}
		break
	}
	t := v.Type()
	if p, ok := t.(*types.Pointer); ok {
		t = p.Elem()
	}
	n, ok := t.(*types.Named)
	if !ok || n.Obj().Pkg() == nil {
		return "", false
	}
	name := n.Obj().Name()
	switch n.Obj().Pkg().Path() {
	case antlrPkg:
		switch name {
		case "TerminalNode", "TerminalNodeImpl", "Token", "CommonToken", "ErrorNode":
			return "", true
		}
		return "", false
	case grammarPkg:
		if !strings.HasSuffix(name, "Context") {
			return "", false
		}
		if cs, ok := e.tree.ctxs[name]; ok && cs.rule != nil {
			return cs.rule.name, true
		}
		if strings.HasPrefix(name, "I") {
			if cs, ok := e.tree.ctxs[name[1:]]; ok && cs.rule != nil {
				return cs.rule.name, true
			}
			// interface of a rule with labelled alternatives
			for rn := range e.tree.rules {
				if exportName(rn)+"Context" == name[1:] {
					return rn, true
				}
			}
		}
	}
	return "", false
}

// spellingClosed: no derivation of the rule contains a doc string (STRING_LITERAL) or an optional
// separator (COMMA? / SEMICOLON?).
func (ts *TreeSpec) spellingClosed(rule string, seen map[string]bool) bool {
	if seen[rule] {
		return true
	}
	seen[rule] = true
	r := ts.rules[rule]
	if r == nil || r.lexer {
		return true
	}
	var elems func(es []*gElem) bool
	elems = func(es []*gElem) bool {
		for _, el := range es {
			switch el.kind {
			case "token":
				if el.name == "STRING_LITERAL" {
					return false
				}
				if (el.name == "COMMA" || el.name == "SEMICOLON") && el.min == 0 {
					return false
				}
			case "rule":
				if !ts.spellingClosed(el.name, seen) {
					return false
				}
			case "group":
				for _, a := range el.alts {
					if !elems(a.elems) {
						return false
					}
				}
			}
		}
		return true
	}
	for _, a := range r.alts {
		if !elems(a.elems) {
			return false
		}
	}
	return true
}

// ---------------------------------------------------------------- bounded stand-in: pairs of spellings
//
// The relational conjuncts of C08 (two texts that mean the same compile to byte-identical outputs) are
// not expressible as one-run contracts.  A labelled BOUNDED stand-in covers them on an enumerated set of
// text pairs: each listed meaning-preserving rewrite, applied in each syntactic context where it can
// occur, on a base program that uses every field kind.  The real ParseFile and the six real generators
// run on both texts (go test -overlay, subprocess); the pair fails if one side does not compile cleanly
// or the file sets differ.  Obligations are named BOUNDED:C08:pair:<hash of both texts>.  The same pairs
// serve as the replay corpus of the deductive C08 obligations.

type spellPair struct {
	Label, A, B string
}

func spellProg(opts, meta, fields string) string {
	return opts + meta + "root packet Msg {\n" + fields + "}\npacket A { u8 a, }\npacket B { u16 b, string t, }\n"
}

func (e *Engine) spellPairs() []spellPair {
	var out []spellPair
	add := func(label, a, b string) { out = append(out, spellPair{label, a, b}) }
	names, classes := e.aliasClasses()
	unsigned := map[string]bool{"UINT8": true, "UINT16": true, "UINT32": true, "UINT64": true}
	integer := map[string]bool{"UINT8": true, "UINT16": true, "UINT32": true, "UINT64": true, "INT8": true, "INT16": true, "INT32": true, "INT64": true}
	for _, tok := range names {
		sps := classes[tok]
		for i := 1; i < len(sps); i++ {
			a, b := sps[0], sps[i]
			ctxs := map[string]func(string) string{
				"field":  func(t string) string { return spellProg("", "", t+" x,\n") },
				"repeat": func(t string) string { return spellProg("", "", "repeat "+t+" xs,\n") },
				"metadata": func(t string) string {
					return spellProg("", "MetaData M { "+t+" Code `d`, }\n", "Code c,\nrepeat Code cs,\n")
				},
				"inline": func(t string) string { return spellProg("", "", "In { "+t+" q, repeat "+t+" qs, },\n") },
			}
			if unsigned[tok] {
				ctxs["length"] = func(t string) string {
					return spellProg("", "", t+" Len @lengthOf(Body),\nu8 Kind,\nmatch Kind as Body { 1 : A, 2 : B, },\n")
				}
				ctxs["length-prefixed"] = func(t string) string {
					return spellProg("", "", "@lengthOf(Body) "+t+" Len,\nu8 Kind,\nmatch Kind as Body { 1 : A, 2 : B, },\n")
				}
				ctxs["option"] = func(t string) string {
					return spellProg("options { StringPrefixLenType = "+t+"; ArrayPrefixLenType = "+t+"; }\n", "", "string s,\nrepeat u8 xs,\nrepeat string ss,\n")
				}
				ctxs["matchkey"] = func(t string) string {
					return spellProg("", "", t+" Kind,\nmatch Kind as Body { 1 : A, [2, 3] : B, },\n")
				}
			}
			if integer[tok] {
				ctxs["checksum"] = func(t string) string { return spellProg("", "", "u8 h,\n"+t+" Sum @calculatedFrom(\"crc\"),\n") }
				ctxs["checksum-prefixed"] = func(t string) string {
					return spellProg("", "", "u8 h,\n@calculatedFrom(\"crc\") "+t+" Sum,\n")
				}
			}
			var ks []string
			for k := range ctxs {
				ks = append(ks, k)
			}
			sort.Strings(ks)
			for _, k := range ks {
				add("alias "+a+"/"+b+" in "+k, ctxs[k](a), ctxs[k](b))
			}
		}
	}
	body := "u16 Len @lengthOf(Body),\nu8 Kind,\nmatch Kind as Body { 1 : A, 2 : B, },\n"
	// string / char[]
	add("string vs char[]", spellProg("", "", "string s,\nrepeat string ss,\n"), spellProg("", "", "char[] s,\nrepeat char[] ss,\n"))
	add("string vs char[] in MetaData", spellProg("", "MetaData M { string T, }\n", "T t,\n"), spellProg("", "MetaData M { char[] T, }\n", "T t,\n"))
	// zchar[n] vs explicit NUL right padding
	add("zchar vs @rightPad NUL", spellProg("", "", "zchar[6] z,\n"), spellProg("", "", "@rightPad('\\x00') char[6] z,\n"))
	add("repeat zchar vs @rightPad NUL", spellProg("", "", "repeat zchar[6] zs,\n"), spellProg("", "", "@rightPad('\\x00') repeat char[6] zs,\n"))
	// default padding vs none
	add("default padding explicit", spellProg("", "", "@rightPad(' ') char[4] f,\n"), spellProg("", "", "char[4] f,\n"))
	add("empty padding attribute", spellProg("", "", "@rightPad() char[4] f,\n"), spellProg("", "", "char[4] f,\n"))
	add("default padding under options", spellProg("options { FixedStringPadChar = '0'; FixedStringPadFromLeft = true; }\n", "", "@leftPad('0') char[4] f,\n"),
		spellProg("options { FixedStringPadChar = '0'; FixedStringPadFromLeft = true; }\n", "", "char[4] f,\n"))
	// inline vs prefixed attribute placement
	add("lengthOf inline vs prefixed", spellProg("", "", body), spellProg("", "", "@lengthOf(Body) u16 Len,\nu8 Kind,\nmatch Kind as Body { 1 : A, 2 : B, },\n"))
	add("calculatedFrom inline vs prefixed", spellProg("", "", "u8 h,\nu32 Sum @calculatedFrom(\"crc32\"),\n"), spellProg("", "", "u8 h,\n@calculatedFrom(\"crc32\") u32 Sum,\n"))
	// explicit default options vs none
	fieldsAll := "string s,\nrepeat u16 xs,\nrepeat string ss,\nchar[4] f,\nu32 n,\n" + body
	for _, o := range []string{"LittleEndian = false;", "StringPrefixLenType = u16;", "ArrayPrefixLenType = u16;", "FixedStringPadFromLeft = false;", "FixedStringPadChar = ' ';",
		"LittleEndian = false; StringPrefixLenType = u16; ArrayPrefixLenType = u16; FixedStringPadFromLeft = false; FixedStringPadChar = ' ';"} {
		add("explicit default option "+o, spellProg("options { "+o+" }\n", "", fieldsAll), spellProg("", "", fieldsAll))
	}
	add("empty options block", spellProg("options { }\n", "", fieldsAll), spellProg("", "", fieldsAll))
	add("pad side given, pad char default", spellProg("options { FixedStringPadFromLeft = true; FixedStringPadChar = ' '; }\n", "", fieldsAll), spellProg("options { FixedStringPadFromLeft = true; }\n", "", fieldsAll))
	// key list vs expanded pairs
	add("key list vs pairs", spellProg("", "", "u8 Kind,\nmatch Kind as Body { [1, 2] : A, 3 : B, },\n"), spellProg("", "", "u8 Kind,\nmatch Kind as Body { 1 : A, 2 : A, 3 : B, },\n"))
	add("string key list vs pairs", spellProg("", "", "string Kind,\nmatch Kind as Body { [\"a\", \"b\"] : A, \"c\" : B, },\n"), spellProg("", "", "string Kind,\nmatch Kind as Body { \"a\" : A, \"b\" : A, \"c\" : B, },\n"))
	add("string key list with a comma inside a key", spellProg("", "", "string Kind,\nmatch Kind as Body { [\"a,b\", \"c\"] : A, \"d\" : B, },\n"), spellProg("", "", "string Kind,\nmatch Kind as Body { \"a,b\" : A, \"c\" : A, \"d\" : B, },\n"))
	add("one-element key list", spellProg("", "", "u8 Kind,\nmatch Kind as Body { [1] : A, 3 : B, },\n"), spellProg("", "", "u8 Kind,\nmatch Kind as Body { 1 : A, 3 : B, },\n"))
	// MetaData-typed field vs inlined type
	add("MetaData vs inlined", spellProg("", "MetaData M { u16 Code `c`, char[8] Name, string Text, zchar[4] Z, }\n", "Code c,\nName n,\nText t,\nZ z,\nrepeat Code cs,\nrepeat Name ns,\n"),
		spellProg("", "", "u16 c,\nchar[8] n,\nstring t,\nzchar[4] z,\nrepeat u16 cs,\nrepeat char[8] ns,\n"))
	add("MetaData field named after its type", spellProg("", "MetaData M { u16 Code, }\n", "Code,\n"), spellProg("", "", "u16 Code,\n"))
	add("MetaData alias entry", spellProg("", "MetaData M { u16 Code, Code Other, }\n", "Other o,\n"), spellProg("", "", "u16 o,\n"))
	// separators, whitespace, comments, doc strings
	add("option separators", spellProg("options { LittleEndian = true; StringPrefixLenType = u8; }\n", "", fieldsAll), spellProg("options { LittleEndian = true StringPrefixLenType = u8 }\n", "", fieldsAll))
	add("match pair separators", spellProg("", "", "u8 Kind,\nmatch Kind as Body { 1 : A, 2 : B, },\n"), spellProg("", "", "u8 Kind,\nmatch Kind as Body { 1 : A 2 : B },\n"))
	full := spellProg("options { LittleEndian = true; }\n", "MetaData M { u16 Code, }\n", "Code c,\nIn { u8 q, },\n"+fieldsAll)
	add("whitespace", full, strings.Join(strings.Fields(strings.ReplaceAll(full, "\n", " ")), " "))
	add("whitespace tabs and blank lines", full, strings.ReplaceAll(full, "\n", "\n\n\t"))
	add("comments", full, "// head\n"+strings.ReplaceAll(full, ",\n", ", // c\n// own line\n")+"// tail\n")
	add("doc strings", spellProg("", "MetaData M { u16 Code `the code`, }\n", "Code c `a code`,\nu8 x `an x`,\nA obj `an object`,\nu16 Len @lengthOf(Body) `length`,\nu8 Kind `kind`,\nmatch Kind as Body { 1 : A, },\nu32 Sum @calculatedFrom(\"crc\") `sum`,\n"),
		spellProg("", "MetaData M { u16 Code, }\n", "Code c,\nu8 x,\nA obj,\nu16 Len @lengthOf(Body),\nu8 Kind,\nmatch Kind as Body { 1 : A, },\nu32 Sum @calculatedFrom(\"crc\"),\n"))
	add("multi-line doc string", spellProg("", "", "u8 x `line one\nline two`,\n"), spellProg("", "", "u8 x,\n"))
	// doc strings and names that quote DSL vocabulary (a decision taken on the text of a whole declaration
	// instead of its type would see them)
	add("doc string quoting a type", spellProg("", "MetaData M { char[6] Tag `was zchar[6] before v2`, }\n", "char[8] n `zchar[8] in the old protocol`,\nTag t,\nu16 w `u32 string char[] repeat root`,\n"),
		spellProg("", "MetaData M { char[6] Tag, }\n", "char[8] n,\nTag t,\nu16 w,\n"))
	add("field named after a type word", spellProg("", "", "char[8] zcharname,\nu16 stringlen,\n"), spellProg("", "", "char[8] zcharname `d`,\nu16 stringlen `d`,\n"))
	// conversely: an attribute applies only to the field it is written on
	for _, ty := range []string{"char[8]", "zchar[8]"} {
		add("attribute locality "+ty+" first", spellProg("", "MetaData M { "+ty+" Code, }\n", "@leftPad('0') Code a,\nCode b,\n"), spellProg("", "", "@leftPad('0') "+ty+" a,\n"+ty+" b,\n"))
		add("attribute locality "+ty+" second", spellProg("", "MetaData M { "+ty+" Code, }\n", "Code a,\n@leftPad('0') Code b,\nCode c,\n"), spellProg("", "", ty+" a,\n@leftPad('0') "+ty+" b,\n"+ty+" c,\n"))
		add("attribute locality "+ty+" across packets", spellProg("", "MetaData M { "+ty+" Code, }\n", "@rightPad('0') Code a,\n")+"packet C { Code k, }\n", spellProg("", "", "@rightPad('0') "+ty+" a,\n")+"packet C { "+ty+" k, }\n")
	}
	add("tag attribute locality", spellProg("", "", "@tag(7) u8 x,\nu8 y,\n"), spellProg("", "", "@tag(7)\nu8 x,\nu8 y,\n"))
	return out
}

const pairsHarness = `
func TestGoverifPairs(t *testing.T) {
	dir := os.Getenv("GOVERIF_PAIRS_DIR")
	if dir == "" {
		t.Skip()
	}
	files, _ := filepath.Glob(filepath.Join(dir, "*.a.dsl"))
	sort.Strings(files)
	out, _ := os.Create(filepath.Join(dir, "pairs.jsonl"))
	defer out.Close()
	null, _ := os.OpenFile(os.DevNull, os.O_WRONLY, 0)
	os.Stdout = null
	emit := func(f, class, note string) {
		b, _ := json.Marshal(goverifStandin{filepath.Base(f), class, note})
		out.Write(append(b, '\n'))
	}
	for _, fa := range files {
		a, _ := os.ReadFile(fa)
		b, _ := os.ReadFile(strings.TrimSuffix(fa, ".a.dsl") + ".b.dsl")
		xa, oka := goverifCompile(dir, string(a))
		xb, okb := goverifCompile(dir, string(b))
		switch {
		case !oka && !okb:
			emit(fa, "pair", "neither text compiles without diagnostics")
		case !oka:
			emit(fa, "pair", "the first text does not compile without diagnostics, the second does")
		case !okb:
			emit(fa, "pair", "the second text does not compile without diagnostics, the first does")
		case len(xa) != len(xb):
			emit(fa, "pair", fmt.Sprintf("%d files from the first text, %d from the second", len(xa), len(xb)))
		default:
			ks := make([]string, 0, len(xa))
			for k := range xa {
				ks = append(ks, k)
			}
			sort.Strings(ks)
			for _, k := range ks {
				if xb[k] != xa[k] {
					la, lb := strings.Split(xa[k], "\n"), strings.Split(xb[k], "\n")
					d := ""
					for i := 0; i < len(la) && i < len(lb); i++ {
						if la[i] != lb[i] {
							d = fmt.Sprintf(" line %d: %q vs %q", i+1, la[i], lb[i])
							break
						}
					}
					emit(fa, "pair", "generated file "+k+" differs:"+d)
					break
				}
			}
		}
		emit(fa, "done", "")
	}
}
`

type pairOutcome struct {
	Pair spellPair
	Note string
}

var pairsRan bool
var pairsFail map[string]pairOutcome // obligation name -> outcome
var pairsCount, pairsDone int
var pairsErr error

func (e *Engine) runSpellPairs() {
	if pairsRan {
		return
	}
	pairsRan = true
	pairsFail = map[string]pairOutcome{}
	dir, err := os.MkdirTemp("/var/tmp", "goverif-pairs-")
	if err != nil {
		pairsErr = err
		return
	}
	defer os.RemoveAll(dir)
	pairs := e.spellPairs()
	pairsCount = len(pairs)
	byFile := map[string]spellPair{}
	for i, p := range pairs {
		n := fmt.Sprintf("p%04d", i)
		byFile[n+".a.dsl"] = p
		os.WriteFile(filepath.Join(dir, n+".a.dsl"), []byte(p.A), 0644)
		os.WriteFile(filepath.Join(dir, n+".b.dsl"), []byte(p.B), 0644)
	}
	h := filepath.Join(dir, "zz_goverif_standin_test.go")
	os.WriteFile(h, []byte(standinHarness+pairsHarness), 0644)
	ov := map[string]interface{}{"Replace": map[string]string{filepath.Join(repoRoot, "internal/parser/zz_goverif_standin_test.go"): h}}
	ovb, _ := json.Marshal(ov)
	ovf := filepath.Join(dir, "overlay.json")
	os.WriteFile(ovf, ovb, 0644)
	cmd := exec.Command("go", "test", "-overlay", ovf, "-vet=off", "-count=1", "-timeout", "300s", "-run", "^TestGoverifPairs$", "./internal/parser/")
	cmd.Dir = repoRoot
	cmd.Env = append(os.Environ(), "GOVERIF_PAIRS_DIR="+dir, "GOFLAGS=-mod=mod", "GOPROXY=off")
	outb, err := cmd.CombinedOutput()
	f, ferr := os.Open(filepath.Join(dir, "pairs.jsonl"))
	if ferr != nil {
		pairsErr = fmt.Errorf("pairs harness did not run: %v\n%s", err, truncate(string(outb), 2000))
		return
	}
	defer f.Close()
	sc := bufio.NewScanner(f)
	sc.Buffer(make([]byte, 1<<20), 1<<24)
	for sc.Scan() {
		var o standinOutcome
		if json.Unmarshal(sc.Bytes(), &o) != nil {
			continue
		}
		if o.Class == "done" {
			pairsDone++
			continue
		}
		p := byFile[o.File]
		pairsFail[fmt.Sprintf("BOUNDED:C08:pair:%s", inputID(p.A+"\x00"+p.B))] = pairOutcome{p, o.Note}
	}
	if pairsDone != pairsCount {
		pairsErr = fmt.Errorf("pairs harness stopped after %d of %d pairs: %v\n%s", pairsDone, pairsCount, err, truncate(string(outb), 2000))
	}
}

// ---------------------------------------------------------------- bounded stand-in: fault injection (C12)
//
// Each fault class of property C12 is injected at each site of a base program where it can occur; the
// real ParseFile runs on the text. The fault must produce at least one diagnostic carrying the line of
// the offending declaration; the fault-free base programs must produce none.  Obligations are named
// BOUNDED:C12:fault:<hash of the text>.

type faultCase struct {
	Label string
	Text  string
	Line  int // expected line of a diagnostic; 0 = no diagnostic expected
}

func faultCases() []faultCase {
	var out []faultCase
	base := []string{
		"options {",                             // 1
		"    LittleEndian = true;",              // 2
		"    StringPrefixLenType = u8;",         // 3
		"}",                                     // 4
		"MetaData Types {",                      // 5
		"    u16 Code `a code`,",                // 6
		"    char[8] Name,",                     // 7
		"}",                                     // 8
		"root packet Msg {",                     // 9
		"    u16 Len @lengthOf(Body),",          // 10
		"    Code c,",                           // 11
		"    Name n,",                           // 12
		"    u8 Kind,",                          // 13
		"    match Kind as Body {",              // 14
		"        1 : A,",                        // 15
		"        [2, 3] : B,",                   // 16
		"    },",                                // 17
		"    u32 Sum @calculatedFrom(\"crc\"),", // 18
		"}",                                     // 19
		"packet A {",                            // 20
		"    u8 a,",                             // 21
		"    B inner,",                          // 22
		"    In { u8 q, string t, },",           // 23
		"}",                                     // 24
		"packet B {",                            // 25
		"    string s,",                         // 26
		"    repeat u16 xs,",                    // 27
		"}",                                     // 28
	}
	join := func(ls []string) string { return strings.Join(ls, "\n") + "\n" }
	out = append(out, faultCase{"well-formed base", join(base), 0})
	// replace line n (1-based) / insert after line n
	repl := func(n int, l string) []string {
		c := append([]string(nil), base...)
		c[n-1] = l
		return c
	}
	ins := func(n int, ls ...string) []string {
		c := append([]string(nil), base[:n]...)
		c = append(c, ls...)
		return append(c, base[n:]...)
	}
	add := func(label string, ls []string, line int) { out = append(out, faultCase{label, join(ls), line}) }
	add("duplicate packet", ins(28, "packet A {", "    u8 z,", "}"), 29)
	add("duplicate packet (root name)", ins(28, "packet Msg {", "    u8 z,", "}"), 29)
	add("duplicate MetaData entry", ins(7, "    u32 Code,"), 8)
	add("duplicate MetaData entry in a second block", ins(8, "MetaData More {", "    string Name,", "}"), 10)
	add("duplicate option", ins(3, "    LittleEndian = false;"), 4)
	add("duplicate option in a second block", ins(4, "options {", "    StringPrefixLenType = u16;", "}"), 6)
	add("duplicate field", ins(13, "    u8 Kind,"), 14)
	add("duplicate field in another packet", ins(21, "    u16 a,"), 22)
	add("duplicate field in an inline object", repl(23, "    In { u8 q, string q, },"), 23)
	add("duplicate match key", ins(15, "        1 : B,"), 16)
	add("duplicate match key inside a list", repl(16, "        [2, 1] : B,"), 16)
	add("second root packet", repl(25, "root packet B {"), 25)
	add("unknown option", ins(3, "    Bogus = 1;"), 4)
	add("illegal option value", repl(2, "    LittleEndian = 5;"), 2)
	add("illegal option value (string)", repl(2, "    LittleEndian = \"yes\";"), 2)
	add("illegal prefix type", repl(3, "    StringPrefixLenType = i8;"), 3)
	add("illegal prefix type (wrong case)", repl(3, "    StringPrefixLenType = \"U8\";"), 3)
	add("illegal option value (wrong case)", repl(2, "    LittleEndian = \"TRUE\";"), 2)
	add("length-of outside the root packet", ins(26, "    u16 l @lengthOf(s),"), 27)
	add("length-of outside the root packet (prefixed)", ins(26, "    @lengthOf(s) u16 l,"), 27)
	add("length-of declared twice", ins(10, "    u16 Len2 @lengthOf(Body),"), 11)
	add("undeclared packet in an object field", repl(22, "    Nope inner,"), 22)
	add("undeclared packet in a repeated object field", ins(22, "    repeat Nope2 more,"), 23)
	add("undeclared packet in an inline object", repl(23, "    In { u8 q, Nope3 x, },"), 23)
	add("undeclared packet in a match pair", repl(15, "        1 : Nope4,"), 15)
	add("undeclared packet in a key list pair", repl(16, "        [2, 3] : Nope5,"), 16)
	add("undeclared match key field", repl(14, "    match NoKey as Body {"), 14)
	add("undeclared length target", repl(10, "    u16 Len @lengthOf(Nothing),"), 10)
	add("undeclared length target (prefixed)", repl(10, "    @lengthOf(Nothing) u16 Len,"), 10)
	// further well-formed programs: documented constructs and option values must be accepted
	out = append(out, faultCase{"well-formed: every option with each documented value", "options { LittleEndian = false; StringPrefixLenType = u32; ArrayPrefixLenType = u64; FixedStringPadFromLeft = true; FixedStringPadChar = '0'; JavaPackage = \"a.b\"; GoPackage = \"p\"; GoModule = \"m\"; }\nroot packet P { char[4] c, string s, repeat u8 xs, }\n", 0})
	out = append(out, faultCase{"well-formed: alias spellings and NUL pad", "options { StringPrefixLenType = uint16; ArrayPrefixLenType = uint8; FixedStringPadChar = '\\x00'; }\nroot packet P { uint8 a, int64 b, float32 f, float64 g, char[] s, zchar[4] z, @leftPad(' ') char[3] p, }\n", 0})
	out = append(out, faultCase{"well-formed: same field name in different packets", "root packet P { u8 x, Q q, }\npacket Q { u8 x, }\n", 0})
	out = append(out, faultCase{"well-formed: same key in two match fields", "root packet P { u8 k, match k as b { 1 : Q, }, u8 j, match j as c { 1 : Q, }, }\npacket Q { u8 x, }\n", 0})
	out = append(out, faultCase{"well-formed: forward reference", "root packet P { Q q, }\npacket Q { u8 x, }\n", 0})
	out = append(out, faultCase{"well-formed: no root packet", "packet P { u8 x, }\n", 0})
	return out
}

const faultHarness = `
func TestGoverifFaults(t *testing.T) {
	dir := os.Getenv("GOVERIF_FAULTS_DIR")
	if dir == "" {
		t.Skip()
	}
	files, _ := filepath.Glob(filepath.Join(dir, "*.dsl"))
	sort.Strings(files)
	out, _ := os.Create(filepath.Join(dir, "faults.jsonl"))
	defer out.Close()
	null, _ := os.OpenFile(os.DevNull, os.O_WRONLY, 0)
	os.Stdout = null
	for _, f := range files {
		note := ""
		func() {
			defer func() {
				if r := recover(); r != nil {
					note = "panic: " + fmt.Sprint(r)
				}
			}()
			res, err := ParseFile(f)
			if err != nil {
				note = "syntax: " + err.Error()
				return
			}
			m, ok := res.(*model.BinaryModel)
			if !ok {
				note = "no model"
				return
			}
			var ds []string
			for _, e := range m.SyntaxErrors {
				ds = append(ds, fmt.Sprintf("%d:%s", e.Line, e.Msg))
			}
			note = "diagnostics: " + strings.Join(ds, " | ")
		}()
		b, _ := json.Marshal(goverifStandin{filepath.Base(f), "fault", note})
		out.Write(append(b, '\n'))
	}
}
`

var faultsRan bool
var faultsFail map[string]map[string]interface{}
var faultsCount, faultsDone int
var faultsErr error

func (e *Engine) runFaults() {
	if faultsRan {
		return
	}
	faultsRan = true
	faultsFail = map[string]map[string]interface{}{}
	dir, err := os.MkdirTemp("/var/tmp", "goverif-faults-")
	if err != nil {
		faultsErr = err
		return
	}
	defer os.RemoveAll(dir)
	cases := faultCases()
	faultsCount = len(cases)
	byFile := map[string]faultCase{}
	for i, c := range cases {
		n := fmt.Sprintf("f%04d.dsl", i)
		byFile[n] = c
		os.WriteFile(filepath.Join(dir, n), []byte(c.Text), 0644)
	}
	h := filepath.Join(dir, "zz_goverif_standin_test.go")
	os.WriteFile(h, []byte(standinHarness+faultHarness), 0644)
	ov := map[string]interface{}{"Replace": map[string]string{filepath.Join(repoRoot, "internal/parser/zz_goverif_standin_test.go"): h}}
	ovb, _ := json.Marshal(ov)
	ovf := filepath.Join(dir, "overlay.json")
	os.WriteFile(ovf, ovb, 0644)
	cmd := exec.Command("go", "test", "-overlay", ovf, "-vet=off", "-count=1", "-timeout", "300s", "-run", "^TestGoverifFaults$", "./internal/parser/")
	cmd.Dir = repoRoot
	cmd.Env = append(os.Environ(), "GOVERIF_FAULTS_DIR="+dir, "GOFLAGS=-mod=mod", "GOPROXY=off")
	outb, err := cmd.CombinedOutput()
	f, ferr := os.Open(filepath.Join(dir, "faults.jsonl"))
	if ferr != nil {
		faultsErr = fmt.Errorf("fault harness did not run: %v\n%s", err, truncate(string(outb), 2000))
		return
	}
	defer f.Close()
	sc := bufio.NewScanner(f)
	sc.Buffer(make([]byte, 1<<20), 1<<24)
	for sc.Scan() {
		var o standinOutcome
		if json.Unmarshal(sc.Bytes(), &o) != nil {
			continue
		}
		faultsDone++
		c := byFile[o.File]
		ok := false
		why := ""
		switch {
		case strings.HasPrefix(o.Note, "panic") || strings.HasPrefix(o.Note, "syntax") || o.Note == "no model":
			why = o.Note
		case c.Line == 0:
			ok = o.Note == "diagnostics: "
			why = "a well-formed text is rejected: " + o.Note
		default:
			for _, d := range strings.Split(strings.TrimPrefix(o.Note, "diagnostics: "), " | ") {
				if strings.HasPrefix(d, fmt.Sprintf("%d:", c.Line)) {
					ok = true
				}
			}
			why = fmt.Sprintf("no diagnostic at line %d (%s)", c.Line, o.Note)
		}
		if !ok {
			faultsFail[fmt.Sprintf("BOUNDED:C12:fault:%s", inputID(c.Text))] = map[string]interface{}{"fault": c.Label, "input": c.Text, "expected_line": c.Line, "observed": why}
		}
	}
	if faultsDone != faultsCount {
		faultsErr = fmt.Errorf("fault harness stopped after %d of %d cases: %v\n%s", faultsDone, faultsCount, err, truncate(string(outb), 2000))
	}
}

// ---------------------------------------------------------------- COVER (C09): every content element is read
//
// A necessary condition for "formatting retains every declaration, attribute, documentation string":
// for every grammar rule (and labelled alternative) and every content element of it - a sub-rule, a
// token with variable text, an optional or repeated keyword - the formatter contains a call of an
// accessor of that element on a context of that rule, or prints the whole context generically
// (GetText / GetChildren on it or on an enclosing rule).  An element no formatter function ever reads
// cannot reach the output: it is silently deleted.  Derived from grammar/PacketDsl.g4 on every run;
// decided on the SSA of the formatter functions (all inputs).  One obligation per (rule, element).

func (e *Engine) coverObligations() []*Obligation {
	// calls made by the formatter: context type -> method names
	calls := map[string]map[string]bool{}
	note := func(ctx, m string) {
		if _, isCtx := e.tree.ctxs[ctx]; !isCtx && strings.HasPrefix(ctx, "I") {
			ctx = ctx[1:] // interface IXContext of context type XContext
		}
		if calls[ctx] == nil {
			calls[ctx] = map[string]bool{}
		}
		calls[ctx][m] = true
	}
	var fns []*ssa.Function
	seen := map[*ssa.Function]bool{}
	for _, fn := range e.allRepoFunctions() {
		if fn.Signature.Recv() != nil && strings.Contains(fn.Signature.Recv().Type().String(), "PacketDslFormattor") {
			fns = append(fns, fn)
			seen[fn] = true
		}
	}
	for i := 0; i < len(fns); i++ {
		for _, c := range e.staticCallees(fns[i]) {
			if !seen[c] && c.Pkg != nil && strings.HasSuffix(c.Pkg.Pkg.Path(), "/internal/parser") && (c.Signature.Recv() == nil || strings.Contains(c.Signature.Recv().Type().String(), "PacketDslFormattor")) {
				seen[c] = true
				fns = append(fns, c)
			}
		}
	}
	for _, fn := range fns {
		for _, b := range fn.Blocks {
			for _, in := range b.Instrs {
				c, ok := in.(ssa.CallInstruction)
				if !ok {
					continue
				}
				cc := c.Common()
				if cc.IsInvoke() {
					if n := grammarCtxName(cc.Value.Type()); n != "" {
						note(n, cc.Method.Name())
					}
					continue
				}
				sc := cc.StaticCallee()
				if sc == nil || sc.Signature.Recv() == nil || len(cc.Args) == 0 {
					continue
				}
				if n := grammarCtxName(sc.Signature.Recv().Type()); n != "" {
					note(n, sc.Name())
					continue
				}
				// promoted method of the embedded BaseParserRuleContext: recover the context type
				for v := cc.Args[0]; ; {
					fa, ok := v.(*ssa.FieldAddr)
					if !ok {
						break
					}
					if n := grammarCtxName(fa.X.Type()); n != "" {
						note(n, sc.Name())
					}
					v = fa.X
				}
			}
		}
	}
	ts := e.tree
	// contexts printed generically, and everything below them
	generic := map[string]bool{}
	var markGeneric func(ctx string)
	markGeneric = func(ctx string) {
		if generic[ctx] {
			return
		}
		generic[ctx] = true
		cs := ts.ctxs[ctx]
		if cs == nil {
			return
		}
		for _, alt := range ts.ruleAlts[cs.rule.name] {
			markGeneric(alt)
		}
		for el := range cs.counts {
			if !unicode.IsUpper(rune(el[0])) {
				markGeneric(exportName(el) + "Context")
			}
		}
	}
	for ctx, ms := range calls {
		if ms["GetText"] || ms["GetChildren"] {
			markGeneric(ctx)
		}
	}
	var out []*Obligation
	var names []string
	for n := range ts.ctxs {
		names = append(names, n)
	}
	sort.Strings(names)
	separators := map[string]bool{"COMMA": true, "SEMICOLON": true, "COLON": true}
	for _, ctx := range names {
		cs := ts.ctxs[ctx]
		if cs.alt == nil && len(ts.ruleAlts[cs.rule.name]) > 0 {
			continue // the elements live in the labelled alternatives' contexts
		}
		var els []string
		for el := range cs.counts {
			els = append(els, el)
		}
		sort.Strings(els)
		for _, el := range els {
			cnt := cs.counts[el]
			if cnt.max0 || separators[el] {
				continue
			}
			isTok := unicode.IsUpper(rune(el[0]))
			if isTok && cnt.min >= 1 && !cnt.many && len(ts.tokLits[el]) == 1 {
				continue // a mandatory keyword with fixed text is printed as a literal
			}
			acc := accessorName(el)
			want := []string{acc, "All" + acc}
			for lbl, target := range cs.labels {
				if target == el {
					want = append(want, "Get"+strings.ToUpper(lbl[:1])+lbl[1:])
				}
			}
			ok := generic[ctx]
			for _, w := range want {
				if calls[ctx][w] {
					ok = true
				}
			}
			detail := ""
			if !ok {
				detail = fmt.Sprintf("no formatter function calls any of %v on a %s, and no enclosing rule is printed generically: the element cannot reach the formatted text", want, ctx)
			}
			out = append(out, mkObl(fmt.Sprintf("COVER:%s:%s", ctx, el), "COVER", "formatter",
				fmt.Sprintf("the formatter reads element %s of %s", el, ctx), ok, detail))
		}
	}
	return out
}

// ---------------------------------------------------------------- LAYOUT (C10): the formatter observes tokens, not layout
//
// Layout independence for all inputs: two texts made of the same tokens, with every comment on the
// line of the same token, give the lexer the same token sequence (WS is skipped: trusted lexer fact) and
// the same same-line relation. If the formatter observes its input only through (a) token text, type and
// index, (b) tree accessors, (c) hidden-channel queries and (d) equality of two token lines, its result is
// the same for both texts.  One obligation per formatter function, decided on the SSA:
//   - no call of a position accessor (GetColumn, GetStart/GetStop of a *token* i.e. character offsets,
//     GetCharPositionInLine, GetInputStream, GetSourceInterval ...);
//   - every result of Token.GetLine flows only into == / != against another GetLine result.
// Idempotence is not covered by this argument (it needs the lexer on the emitted text): bounded stand-in.

func (e *Engine) layoutObligations() []*Obligation {
	forbidden := map[string]bool{"GetColumn": true, "GetCharPositionInLine": true, "GetInputStream": true, "GetSourceInterval": true, "GetTextFromInterval": true, "GetTextFromTokens": true, "GetAllText": true}
	tokenOnly := map[string]bool{"GetStart": true, "GetStop": true} // character offsets when called on a Token (fine on a rule context: first / last token)
	var out []*Obligation
	for _, fn := range e.allRepoFunctions() {
		inFormatter := fn.Signature.Recv() != nil && strings.Contains(fn.Signature.Recv().Type().String(), "PacketDslFormattor")
		if !inFormatter && fn.Name() != "FormatPacketDsl" && fn.Name() != "formatStringList" && fn.Name() != "indentComments" {
			continue
		}
		var bad []string
		for _, b := range fn.Blocks {
			for _, in := range b.Instrs {
				c, ok := in.(ssa.CallInstruction)
				if !ok {
					continue
				}
				cc := c.Common()
				name, recvT := "", ""
				if cc.IsInvoke() {
					name, recvT = cc.Method.Name(), cc.Value.Type().String()
				} else if sc := cc.StaticCallee(); sc != nil && sc.Signature.Recv() != nil {
					name, recvT = sc.Name(), sc.Signature.Recv().Type().String()
				} else {
					continue
				}
				onToken := strings.HasSuffix(recvT, "antlr/v4.Token") || strings.Contains(recvT, "CommonToken") || strings.Contains(recvT, "BaseToken")
				switch {
				case forbidden[name]:
					bad = append(bad, fmt.Sprintf("%s (%s)", name, e.prog.Fset.Position(in.Pos())))
				case tokenOnly[name] && onToken:
					bad = append(bad, fmt.Sprintf("character offset %s of a token (%s)", name, e.prog.Fset.Position(in.Pos())))
				case name == "GetLine" && onToken:
					v, isVal := in.(ssa.Value)
					if !isVal || v.Referrers() == nil {
						continue
					}
					for _, r := range *v.Referrers() {
						if _, dbg := r.(*ssa.DebugRef); dbg {
							continue
						}
						cmp, ok := r.(*ssa.BinOp)
						okUse := false
						if ok && (cmp.Op == token.EQL || cmp.Op == token.NEQ) {
							other := cmp.X
							if other == v {
								other = cmp.Y
							}
							if oc, ok := other.(ssa.CallInstruction); ok {
								on := ""
								if oc.Common().IsInvoke() {
									on = oc.Common().Method.Name()
								} else if sc := oc.Common().StaticCallee(); sc != nil {
									on = sc.Name()
								}
								okUse = on == "GetLine"
							}
						}
						if !okUse {
							bad = append(bad, fmt.Sprintf("a token line is used other than in a comparison with another token line (%s)", e.prog.Fset.Position(r.Pos())))
						}
					}
				}
			}
		}
		out = append(out, mkObl("LAYOUT:"+e.shortFunc(fn)+":layout-free", "LAYOUT", fn.String(),
			"the function observes tokens only through text, type, index, tree accessors, hidden-channel queries and equality of token lines", len(bad) == 0, strings.Join(bad, "; ")))
	}
	return out
}
