package main

// Parse-tree shape contracts derived from grammar/PacketDsl.g4 on every run.
//
// The generated parser and the ANTLR runtime are trusted with respect to this summary:
// when the error listener recorded no error, the tree conforms to the grammar, i.e.
//   - a mandatory element's accessor returns a non-nil node of the expected dynamic type,
//   - an optional element's accessor may return nil,
//   - AllX() returns a slice of non-nil nodes whose length is at least the grammar minimum,
//   - a rule whose body is an alternation has at least one alternative fully present,
//   - labelled alternatives yield exactly one of the generated alternative context types,
//   - GetStart() is non-nil; GetStop() is non-nil unless the rule is nullable.

import (
	"fmt"
	"go/types"
	"os"
	"sort"
	"strings"
	"unicode"

	"golang.org/x/tools/go/ssa"
)

type gElem struct {
	kind  string // "rule" | "token" | "lit" | "group" | "set"
	name  string
	label string
	alts  []*gAlt // group
	min   int
	many  bool // max > 1
	neg   bool
}

type gAlt struct {
	elems []*gElem
	label string // "# Label"
}

type gRule struct {
	name    string
	alts    []*gAlt
	lexer   bool
	channel string // HIDDEN / skip
}

type count struct {
	min  int
	many bool
	max0 bool // never occurs
}

type ctxSpec struct {
	typeName  string // e.g. PacketDefinitionContext
	rule      *gRule
	alt       *gAlt             // non-nil for labelled alternatives
	counts    map[string]count  // element name (rule or token) -> count
	labels    map[string]string // label -> element name
	labelTok  map[string]bool
	nullable  bool
	altGroups [][]string // for alternations: per alternative, the mandatory element names
	sumGroups [][]string // mandatory groups of single-element alternatives: the counts of these elements sum to >= 1 each
}

type TreeSpec struct {
	rules    map[string]*gRule
	order    []string
	ctxs     map[string]*ctxSpec // by context type name
	tokMin   map[string]int      // lexer token -> minimal text length
	tokLits  map[string][]string // lexer token -> finite set of texts (when finite)
	ruleAlts map[string][]string // rule -> labelled alt context names
	src      string
}

// ---------------------------------------------------------------- g4 reader

type g4lex struct {
	s   string
	pos int
}

func (l *g4lex) skip() {
	for l.pos < len(l.s) {
		c := l.s[l.pos]
		if c == ' ' || c == '\t' || c == '\n' || c == '\r' {
			l.pos++
			continue
		}
		if strings.HasPrefix(l.s[l.pos:], "//") {
			for l.pos < len(l.s) && l.s[l.pos] != '\n' {
				l.pos++
			}
			continue
		}
		if strings.HasPrefix(l.s[l.pos:], "/*") {
			i := strings.Index(l.s[l.pos:], "*/")
			l.pos += i + 2
			continue
		}
		break
	}
}

func (l *g4lex) peek() byte {
	l.skip()
	if l.pos >= len(l.s) {
		return 0
	}
	return l.s[l.pos]
}

func (l *g4lex) ident() string {
	l.skip()
	st := l.pos
	for l.pos < len(l.s) && (unicode.IsLetter(rune(l.s[l.pos])) || unicode.IsDigit(rune(l.s[l.pos])) || l.s[l.pos] == '_') {
		l.pos++
	}
	return l.s[st:l.pos]
}

func (l *g4lex) literal() string {
	// at '\''
	l.pos++
	var sb strings.Builder
	for l.pos < len(l.s) && l.s[l.pos] != '\'' {
		if l.s[l.pos] == '\\' {
			l.pos++
			switch l.s[l.pos] {
			case 'n':
				sb.WriteByte('\n')
			case 'r':
				sb.WriteByte('\r')
			case 't':
				sb.WriteByte('\t')
			default:
				sb.WriteByte(l.s[l.pos])
			}
			l.pos++
			continue
		}
		sb.WriteByte(l.s[l.pos])
		l.pos++
	}
	l.pos++
	return sb.String()
}

func (l *g4lex) charset() {
	// at '['
	for l.pos < len(l.s) && l.s[l.pos] != ']' {
		if l.s[l.pos] == '\\' {
			l.pos++
		}
		l.pos++
	}
	l.pos++
}

func parseG4(src string) (map[string]*gRule, []string) {
	l := &g4lex{s: src}
	rules := map[string]*gRule{}
	var order []string
	// header
	if l.ident() == "grammar" {
		l.ident()
		l.skip()
		l.pos++ // ;
	}
	for l.peek() != 0 {
		name := l.ident()
		if name == "" {
			panic(fmt.Sprintf("g4: unexpected %q at %d", l.peek(), l.pos))
		}
		if name == "fragment" {
			name = l.ident()
		}
		if l.peek() != ':' {
			panic("g4: expected ':' after " + name)
		}
		l.pos++
		r := &gRule{name: name, lexer: unicode.IsUpper(rune(name[0]))}
		r.alts = parseAlts(l, r)
		if l.peek() != ';' {
			panic(fmt.Sprintf("g4: expected ';' in %s at %d got %q", name, l.pos, l.peek()))
		}
		l.pos++
		rules[name] = r
		order = append(order, name)
	}
	return rules, order
}

func parseAlts(l *g4lex, r *gRule) []*gAlt {
	var alts []*gAlt
	for {
		alts = append(alts, parseAlt(l, r))
		if l.peek() == '|' {
			l.pos++
			continue
		}
		return alts
	}
}

func parseAlt(l *g4lex, r *gRule) *gAlt {
	a := &gAlt{}
	for {
		c := l.peek()
		switch {
		case c == 0 || c == ';' || c == '|' || c == ')':
			return a
		case c == '#':
			l.pos++
			a.label = l.ident()
			continue
		case c == '-' && strings.HasPrefix(l.s[l.pos:], "->"):
			l.pos += 2
			cmd := l.ident()
			if l.peek() == '(' {
				l.pos++
				arg := l.ident()
				l.skip()
				l.pos++
				cmd = arg
			}
			r.channel = cmd
			continue
		}
		el := &gElem{min: 1}
		if c == '~' {
			l.pos++
			el.neg = true
			c = l.peek()
		}
		switch {
		case c == '\'':
			el.kind = "lit"
			el.name = l.literal()
		case c == '[':
			el.kind = "set"
			l.charset()
		case c == '.':
			el.kind = "set"
			l.pos++
		case c == '(':
			l.pos++
			el.kind = "group"
			el.alts = parseAlts(l, r)
			if l.peek() != ')' {
				panic("g4: expected ')'")
			}
			l.pos++
		default:
			id := l.ident()
			if id == "" {
				panic(fmt.Sprintf("g4: unexpected %q at %d (rule %s)", c, l.pos, r.name))
			}
			if l.peek() == '=' {
				l.pos++
				el.label = id
				// labelled atom
				c2 := l.peek()
				if c2 == '\'' {
					el.kind = "lit"
					el.name = l.literal()
				} else {
					id = l.ident()
					el.name = id
				}
			} else {
				el.name = id
			}
			if el.kind == "" {
				if unicode.IsUpper(rune(el.name[0])) {
					el.kind = "token"
				} else {
					el.kind = "rule"
				}
			}
		}
		if el.neg {
			el.kind = "set"
		}
		switch l.peek() {
		case '?':
			l.pos++
			el.min = 0
		case '*':
			l.pos++
			el.min = 0
			el.many = true
		case '+':
			l.pos++
			el.many = true
		}
		if l.peek() == '?' { // non-greedy
			l.pos++
		}
		a.elems = append(a.elems, el)
	}
}

// counts of named elements in a sequence of elements
func seqCounts(elems []*gElem, mult func(c count, min int, many bool) count) map[string]count {
	out := map[string]count{}
	add := func(n string, c count) {
		o, ok := out[n]
		if !ok {
			out[n] = c
			return
		}
		out[n] = count{min: o.min + c.min, many: true}
	}
	for _, el := range elems {
		switch el.kind {
		case "rule", "token":
			add(el.name, count{min: el.min, many: el.many})
		case "group":
			g := altCounts(el.alts)
			for n, c := range g {
				m := c.min
				if el.min == 0 {
					m = 0
				}
				add(n, count{min: m, many: c.many || el.many})
			}
		}
	}
	return out
}

func altCounts(alts []*gAlt) map[string]count {
	var per []map[string]count
	names := map[string]bool{}
	for _, a := range alts {
		c := seqCounts(a.elems, nil)
		per = append(per, c)
		for n := range c {
			names[n] = true
		}
	}
	out := map[string]count{}
	for n := range names {
		min := 1 << 30
		many := false
		for _, c := range per {
			x := c[n]
			if x.min < min {
				min = x.min
			}
			if x.many {
				many = true
			}
		}
		out[n] = count{min: min, many: many}
	}
	return out
}

func (ts *TreeSpec) nullableElems(elems []*gElem) bool {
	for _, el := range elems {
		if el.min == 0 {
			continue
		}
		switch el.kind {
		case "rule":
			if !ts.nullableRule(el.name, map[string]bool{}) {
				return false
			}
		case "group":
			n := false
			for _, a := range el.alts {
				if ts.nullableElems(a.elems) {
					n = true
				}
			}
			if !n {
				return false
			}
		default:
			return false
		}
	}
	return true
}

func (ts *TreeSpec) nullableRule(name string, seen map[string]bool) bool {
	if seen[name] {
		return false
	}
	seen[name] = true
	r := ts.rules[name]
	for _, a := range r.alts {
		if ts.nullableElems(a.elems) {
			return true
		}
	}
	return false
}

func (ts *TreeSpec) lexMin(elems []*gElem, seen map[string]bool) int {
	n := 0
	for _, el := range elems {
		if el.min == 0 {
			continue
		}
		switch el.kind {
		case "lit":
			if el.neg {
				n++
			} else {
				n += len(el.name)
			}
		case "set":
			n++
		case "token":
			n += ts.lexRuleMin(el.name, seen)
		case "group":
			m := 1 << 30
			for _, a := range el.alts {
				if x := ts.lexMin(a.elems, seen); x < m {
					m = x
				}
			}
			n += m
		}
	}
	return n
}

func (ts *TreeSpec) lexRuleMin(name string, seen map[string]bool) int {
	if seen[name] {
		return 0
	}
	seen[name] = true
	defer delete(seen, name)
	r := ts.rules[name]
	if r == nil {
		return 0
	}
	m := 1 << 30
	for _, a := range r.alts {
		if x := ts.lexMin(a.elems, seen); x < m {
			m = x
		}
	}
	return m
}

// lexFinite: the finite set of texts of a lexer rule, if it is built from literals only.
func (ts *TreeSpec) lexFinite(elems []*gElem) ([]string, bool) {
	acc := []string{""}
	for _, el := range elems {
		var opts []string
		switch el.kind {
		case "lit":
			if el.neg {
				return nil, false
			}
			opts = []string{el.name}
		case "group":
			for _, a := range el.alts {
				o, ok := ts.lexFinite(a.elems)
				if !ok {
					return nil, false
				}
				opts = append(opts, o...)
			}
		default:
			return nil, false
		}
		if el.many {
			return nil, false
		}
		if el.min == 0 {
			opts = append(opts, "")
		}
		var next []string
		for _, p := range acc {
			for _, o := range opts {
				next = append(next, p+o)
			}
		}
		acc = next
	}
	return acc, true
}

func exportName(rule string) string {
	n := strings.ToUpper(rule[:1]) + rule[1:]
	return n
}

func accessorName(elem string) string {
	if unicode.IsUpper(rune(elem[0])) {
		return elem
	}
	n := exportName(elem)
	if n == "Type" {
		return "Type_"
	}
	return n
}

func loadTreeSpec(path string) *TreeSpec {
	b, err := os.ReadFile(path)
	if err != nil {
		panic(err)
	}
	ts := &TreeSpec{ctxs: map[string]*ctxSpec{}, tokMin: map[string]int{}, tokLits: map[string][]string{}, ruleAlts: map[string][]string{}, src: path}
	ts.rules, ts.order = parseG4(string(b))
	for _, name := range ts.order {
		r := ts.rules[name]
		if r.lexer {
			ts.tokMin[name] = ts.lexRuleMin(name, map[string]bool{})
			var all []string
			fin := true
			for _, a := range r.alts {
				o, ok := ts.lexFinite(a.elems)
				if !ok {
					fin = false
					break
				}
				all = append(all, o...)
			}
			if fin {
				ts.tokLits[name] = all
			}
			continue
		}
		labelled := false
		for _, a := range r.alts {
			if a.label != "" {
				labelled = true
			}
		}
		mk := func(typeName string, alts []*gAlt, alt *gAlt) {
			cs := &ctxSpec{typeName: typeName, rule: r, alt: alt, labels: map[string]string{}, labelTok: map[string]bool{}}
			cs.counts = altCounts(alts)
			var walk func(elems []*gElem)
			walk = func(elems []*gElem) {
				for _, el := range elems {
					if el.label != "" && (el.kind == "rule" || el.kind == "token") {
						cs.labels[el.label] = el.name
						cs.labelTok[el.label] = el.kind == "token"
					}
					if el.kind == "group" {
						for _, a := range el.alts {
							walk(a.elems)
						}
					}
				}
			}
			for _, a := range alts {
				walk(a.elems)
			}
			nullable := false
			for _, a := range alts {
				if ts.nullableElems(a.elems) {
					nullable = true
				}
			}
			cs.nullable = nullable
			// at-least-one-alternative axiom
			eff := alts
			if len(alts) == 1 && len(alts[0].elems) == 1 && alts[0].elems[0].kind == "group" && alts[0].elems[0].min == 1 && !alts[0].elems[0].many {
				eff = alts[0].elems[0].alts
			}
			if len(eff) > 1 {
				okAll := true
				var groups [][]string
				for _, a := range eff {
					var mand []string
					for n, c := range seqCounts(a.elems, nil) {
						if c.min >= 1 {
							mand = append(mand, n)
						}
					}
					sort.Strings(mand)
					if len(mand) == 0 {
						okAll = false // alternative made of literals only: no accessor witnesses it
					}
					groups = append(groups, mand)
				}
				if okAll {
					cs.altGroups = groups
				}
			}
			// mandatory (x | y | ...) groups inside a single sequence: count(x)+count(y)+... >= 1
			if len(alts) == 1 {
				for _, el := range alts[0].elems {
					if el.kind != "group" || el.min < 1 {
						continue
					}
					var names []string
					ok := true
					for _, a := range el.alts {
						if len(a.elems) == 1 && (a.elems[0].kind == "token" || a.elems[0].kind == "rule") && a.elems[0].min >= 1 {
							names = append(names, a.elems[0].name)
						} else {
							ok = false
						}
					}
					if ok && len(names) > 1 {
						cs.sumGroups = append(cs.sumGroups, names)
					}
				}
			}
			ts.ctxs[typeName] = cs
		}
		if labelled {
			for _, a := range r.alts {
				mk(a.label+"Context", []*gAlt{a}, a)
				ts.ruleAlts[name] = append(ts.ruleAlts[name], a.label+"Context")
			}
			// the base context type is never instantiated when all alternatives are labelled
		} else {
			mk(exportName(name)+"Context", r.alts, nil)
		}
	}
	return ts
}

// ---------------------------------------------------------------- use in the engine

const grammarPkg = "github.com/xinchentechnote/fin-protoc/internal/grammar"
const antlrPkg = "github.com/antlr4-go/antlr/v4"

func (e *Engine) namedType(pkg, name string) types.Type {
	p := e.prog.ImportedPackage(pkg)
	if p == nil {
		e.fail("package %s not loaded", pkg)
	}
	m := p.Type(name)
	if m == nil {
		e.fail("type %s.%s not found", pkg, name)
	}
	return m.Type()
}

func (e *Engine) ptrTo(pkg, name string) types.Type { return types.NewPointer(e.namedType(pkg, name)) }

// ruleNodeTag: interface tag term of a node produced by rule `rule` (ite-chain over the
// labelled alternatives, selected by an uninterpreted "alternative index" of the node).
func (e *Engine) ruleNodeTag(rule string, node *Term) *Term {
	alts := e.tree.ruleAlts[rule]
	if len(alts) == 0 {
		return e.typeID(e.ptrTo(grammarPkg, exportName(rule)+"Context"))
	}
	sel := App("acc.alt."+rule, SInt, node)
	tag := e.typeID(e.ptrTo(grammarPkg, alts[len(alts)-1]))
	for i := len(alts) - 2; i >= 0; i-- {
		tag = Ite(Eq(sel, Int(int64(i))), e.typeID(e.ptrTo(grammarPkg, alts[i])), tag)
	}
	return tag
}

func (e *Engine) tokenNodeTag() *Term { return e.typeID(e.ptrTo(antlrPkg, "TerminalNodeImpl")) }
func (e *Engine) tokenTag() *Term     { return e.typeID(e.ptrTo(antlrPkg, "CommonToken")) }

// recvCtx: for a call whose receiver is (a pointer to, or the embedded base of) a grammar
// context, the context type name.
func grammarCtxName(t types.Type) string {
	if p, ok := t.(*types.Pointer); ok {
		t = p.Elem()
	}
	n, ok := t.(*types.Named)
	if !ok || n.Obj().Pkg() == nil || n.Obj().Pkg().Path() != grammarPkg {
		return ""
	}
	if !strings.HasSuffix(n.Obj().Name(), "Context") {
		return ""
	}
	return n.Obj().Name()
}

func (ts *TreeSpec) present(cs *ctxSpec, elem string, ctx *Term) *Term {
	c, ok := cs.counts[elem]
	if !ok {
		return False
	}
	if c.min >= 1 {
		return True
	}
	return App("acc.has."+cs.typeName+"."+elem, SBool, ctx)
}

// assumeAlternatives: at least one alternative of an alternation rule is present.
func (ts *TreeSpec) assumeAlternatives(s *State, cs *ctxSpec, ctx *Term) {
	if cs.altGroups == nil {
		return
	}
	var ds []*Term
	for _, g := range cs.altGroups {
		var cj []*Term
		for _, n := range g {
			cj = append(cj, ts.present(cs, n, ctx))
		}
		ds = append(ds, And(cj...))
	}
	s.assume(Or(ds...))
}

func (ts *TreeSpec) accessor(e *Engine, s *State, x ssa.CallInstruction, fn *ssa.Function, args []Value) bool {
	if fn.Signature.Recv() == nil {
		return false
	}
	cn := grammarCtxName(fn.Signature.Recv().Type())
	if cn == "" {
		return false
	}
	cs := ts.ctxs[cn]
	if cs == nil {
		return false
	}
	name := fn.Name()
	ctx := args[0][0]
	e.safe(s, x, "recv", Ne(ctx, Zero))
	e.assumed["parse trees conform to grammar/PacketDsl.g4 when no syntax error was reported (accessor nullability, AllX() lengths, alternative types derived from the grammar on this run)"] = true
	switch name {
	case "Accept":
		return false // real generated code is inlined
	case "GetStart":
		e.bindResult(s, x, Value{e.tokenTag(), App("acc.start", SInt, ctx)})
		s.assume(Ne(App("acc.start", SInt, ctx), Zero))
		return true
	case "GetStop":
		t := App("acc.stop", SInt, ctx)
		if cs.nullable {
			has := App("acc.hasstop", SBool, ctx)
			s.assume(Implies(has, Ne(t, Zero)))
			e.bindResult(s, x, Value{Ite(has, e.tokenTag(), Zero), Ite(has, t, Zero)})
		} else {
			s.assume(Ne(t, Zero))
			e.bindResult(s, x, Value{e.tokenTag(), t})
		}
		return true
	case "GetText":
		e.bindResult(s, x, Value{tokText(s, App("tok.ctxtext", SStr, ctx))})
		return true
	case "GetChildren":
		e.bindResult(s, x, ts.children(e, s, cs, ctx))
		return true
	case "GetParent", "GetRuleContext", "GetParser", "ToStringTree", "EnterRule", "ExitRule":
		return false
	}
	// labels
	if strings.HasPrefix(name, "Get") {
		lbl := strings.ToLower(name[3:4]) + name[4:]
		if el, ok := cs.labels[lbl]; ok {
			pres := ts.present(cs, el, ctx)
			// a label on an element that may occur several times (ftype/fname are both IDENTIFIER):
			// presence of the labelled occurrence is its own predicate unless mandatory
			if c := cs.counts[el]; c.many || true {
				pres = ts.labelPresent(cs, lbl, ctx)
			}
			node := App("acc.label."+cs.typeName+"."+lbl, SInt, ctx)
			s.assume(Implies(pres, Ne(node, Zero)))
			ts.depthFact(s, ctx, node)
			if cs.labelTok[lbl] {
				e.bindResult(s, x, Value{Ite(pres, e.tokenTag(), Zero), Ite(pres, node, Zero)})
				ts.tokenFacts(e, s, el, App("tok.text", SStr, node), pres)
			} else {
				e.bindResult(s, x, Value{Ite(pres, e.ruleNodeTag(el, node), Zero), Ite(pres, node, Zero)})
			}
			return true
		}
	}
	all := strings.HasPrefix(name, "All")
	acc := name
	if all {
		acc = name[3:]
	}
	// find element by accessor name
	var elem string
	for n := range cs.counts {
		if accessorName(n) == acc {
			elem = n
		}
	}
	if elem == "" {
		// accessor for an element that does not occur in this (alternative) context
		return false
	}
	isTok := unicode.IsUpper(rune(elem[0]))
	c := cs.counts[elem]
	if all {
		arr := App("acc.all."+cs.typeName+"."+elem, SInt, ctx)
		n := App("acc.len."+cs.typeName+"."+elem, SInt, ctx)
		s.assume(Le(Int(int64(c.min)), n))
		s.assume(Ne(arr, Zero))
		for _, g := range cs.sumGroups {
			var sum *Term = Zero
			for _, nm := range g {
				cnt := App("acc.len."+cs.typeName+"."+nm, SInt, ctx)
				s.assume(Le(Zero, cnt))
				sum = Add(sum, cnt)
			}
			s.assume(Le(Int(1), sum))
		}
		e.arrSpecs[arr] = func(idx *Term) Value {
			node := App("acc.elem", SInt, arr, idx)
			if isTok {
				return Value{e.tokenNodeTag(), node}
			}
			return Value{e.ruleNodeTag(elem, node), node}
		}
		e.arrFacts[arr] = func(st *State, idx *Term) {
			node := App("acc.elem", SInt, arr, idx)
			st.assume(Ne(node, Zero))
			ts.depthFact(st, ctx, node)
			if isTok {
				ts.tokenFacts(e, st, elem, App("tok.text", SStr, App("tok.symbol", SInt, node)), True)
			}
		}
		e.bindResult(s, x, Value{arr, Zero, n, n})
		return true
	}
	if len(args) > 1 {
		// indexed accessor X(i): may be nil when out of range
		idx := args[1][0]
		arr := App("acc.all."+cs.typeName+"."+elem, SInt, ctx)
		n := App("acc.len."+cs.typeName+"."+elem, SInt, ctx)
		s.assume(Le(Int(int64(c.min)), n))
		node := App("acc.elem", SInt, arr, idx)
		pres := And(Le(Zero, idx), Lt(idx, n))
		s.assume(Implies(pres, Ne(node, Zero)))
		var tag *Term
		if isTok {
			tag = e.tokenNodeTag()
		} else {
			tag = e.ruleNodeTag(elem, node)
		}
		e.bindResult(s, x, Value{Ite(pres, tag, Zero), Ite(pres, node, Zero)})
		return true
	}
	pres := ts.present(cs, elem, ctx)
	node := App("acc."+cs.typeName+"."+elem, SInt, ctx)
	s.assume(Implies(pres, Ne(node, Zero)))
	ts.depthFact(s, ctx, node)
	ts.assumeAlternatives(s, cs, ctx)
	// a mandatory (x | y | ...) group inside the sequence: one of its members is present
	for _, g := range cs.sumGroups {
		single := true
		for _, nm := range g {
			if cs.counts[nm].many {
				single = false
			}
		}
		if !single {
			continue
		}
		var ds []*Term
		for _, nm := range g {
			ds = append(ds, ts.present(cs, nm, ctx))
		}
		s.assume(Or(ds...))
	}
	if isTok {
		e.bindResult(s, x, Value{Ite(pres, e.tokenNodeTag(), Zero), Ite(pres, node, Zero)})
		ts.tokenFacts(e, s, elem, App("tok.text", SStr, App("tok.symbol", SInt, node)), pres)
	} else {
		e.bindResult(s, x, Value{Ite(pres, e.ruleNodeTag(elem, node), Zero), Ite(pres, node, Zero)})
	}
	return true
}

// labelPresent: presence of a labelled element: true when the labelled occurrence is mandatory
// in every alternative of the context.
func (ts *TreeSpec) labelPresent(cs *ctxSpec, lbl string, ctx *Term) *Term {
	mand := true
	found := false
	var walk func(elems []*gElem, optional bool)
	walk = func(elems []*gElem, optional bool) {
		for _, el := range elems {
			opt := optional || el.min == 0
			if el.label == lbl {
				found = true
				if opt {
					mand = false
				}
			}
			if el.kind == "group" {
				for _, a := range el.alts {
					walk(a.elems, opt || len(el.alts) > 1)
				}
			}
		}
	}
	alts := cs.rule.alts
	if cs.alt != nil {
		alts = []*gAlt{cs.alt}
	}
	for _, a := range alts {
		walk(a.elems, len(alts) > 1)
	}
	if found && mand {
		return True
	}
	return App("acc.haslabel."+cs.typeName+"."+lbl, SBool, ctx)
}

// tokenFacts: lexer-derived facts about the text of a token of type tok.
func (ts *TreeSpec) tokenFacts(e *Engine, s *State, tok string, text *Term, cond *Term) {
	s.assume(Implies(cond, App("istoktext", SBool, text)))
	if m := ts.tokMin[tok]; m > 0 {
		s.assume(Implies(cond, Le(Int(int64(m)), StrLen(text))))
	}
	if tok == "DIGITS" {
		s.assume(Implies(cond, App("isdigits", SBool, text)))
	}
	if lits, ok := ts.tokLits[tok]; ok && len(lits) > 0 && len(lits) <= 8 {
		var ds []*Term
		for _, l := range lits {
			ds = append(ds, Eq(text, Str(l)))
		}
		s.assume(Implies(cond, Or(ds...)))
	}
}

// children: GetChildren() of a context: non-nil nodes whose dynamic types are those the
// grammar allows below this rule.
func (ts *TreeSpec) children(e *Engine, s *State, cs *ctxSpec, ctx *Term) Value {
	arr := App("acc.children", SInt, ctx)
	n := App("acc.nchildren", SInt, ctx)
	s.assume(Le(Zero, n))
	var kinds []string
	hasTok := false
	alts := cs.rule.alts
	if cs.alt != nil {
		alts = []*gAlt{cs.alt}
	}
	var walk func(elems []*gElem)
	seen := map[string]bool{}
	walk = func(elems []*gElem) {
		for _, el := range elems {
			switch el.kind {
			case "rule":
				if !seen[el.name] {
					seen[el.name] = true
					kinds = append(kinds, el.name)
				}
			case "token", "lit":
				hasTok = true
			case "group":
				for _, a := range el.alts {
					walk(a.elems)
				}
			}
		}
	}
	for _, a := range alts {
		walk(a.elems)
	}
	sort.Strings(kinds)
	e.arrSpecs[arr] = func(idx *Term) Value {
		node := App("acc.elem", SInt, arr, idx)
		sel := App("acc.childkind", SInt, arr, idx)
		var tag *Term
		start := len(kinds) - 1
		if hasTok {
			tag = e.tokenNodeTag()
		} else {
			tag = e.ruleNodeTag(kinds[start], node)
			start--
		}
		for i := start; i >= 0; i-- {
			tag = Ite(Eq(sel, Int(int64(i))), e.ruleNodeTag(kinds[i], node), tag)
		}
		return Value{tag, node}
	}
	// a rule with one alternative: the mandatory leading tokens are the first children, in grammar
	// order, with the token types of the generated parser; and there are at least as many
	// children as the alternative has mandatory elements
	type lead struct{ types []int64 }
	var leads []lead
	if len(alts) == 1 {
		s.assume(Le(Int(int64(minChildren(alts[0].elems))), n))
	prefix:
		for _, el := range alts[0].elems {
			if el.min != 1 || el.many {
				break
			}
			switch el.kind {
			case "token":
				if t, ok := e.tokenType(el.name); ok {
					leads = append(leads, lead{[]int64{t}})
				} else {
					leads = append(leads, lead{})
				}
			case "lit":
				leads = append(leads, lead{})
			case "group":
				var tys []int64
				for _, a := range el.alts {
					if len(a.elems) != 1 || a.elems[0].kind != "token" || a.elems[0].min != 1 || a.elems[0].many {
						break prefix
					}
					t, ok := e.tokenType(a.elems[0].name)
					if !ok {
						break prefix
					}
					tys = append(tys, t)
				}
				leads = append(leads, lead{tys})
			default:
				break prefix
			}
		}
	}
	e.arrFacts[arr] = func(st *State, idx *Term) {
		node := App("acc.elem", SInt, arr, idx)
		st.assume(Ne(node, Zero))
		ts.depthFact(st, ctx, node)
		for i, l := range leads {
			if len(l.types) == 0 {
				continue
			}
			ty := App("tok.GetTokenType", SInt, App("tok.symbol", SInt, node))
			var ds []*Term
			for _, t := range l.types {
				ds = append(ds, Eq(ty, Int(t)))
			}
			st.assume(Implies(Eq(idx, Int(int64(i))), Or(ds...)))
		}
	}
	if len(leads) > 0 {
		spec := e.arrSpecs[arr]
		e.arrSpecs[arr] = func(idx *Term) Value {
			v := spec(idx)
			if idx.K == KInt && int(idx.I) < len(leads) {
				return Value{e.tokenNodeTag(), v[1]}
			}
			tag := v[0]
			for i := len(leads) - 1; i >= 0; i-- {
				tag = Ite(Eq(idx, Int(int64(i))), e.tokenNodeTag(), tag)
			}
			return Value{tag, v[1]}
		}
	}
	if n == Zero {
		return Value{Zero, Zero, Zero, Zero}
	}
	// GetChildren returns nil for a childless node
	return Value{arr, Zero, n, n}
}

// depthFact: parse trees are finite and tree-shaped: a child's ghost depth is non-negative and
// strictly below its parent's (the termination measure of the recursive visitors).
func (ts *TreeSpec) depthFact(s *State, parent, child *Term) {
	s.assume(And(Le(Zero, App("acc.depth", SInt, child)), Lt(App("acc.depth", SInt, child), App("acc.depth", SInt, parent))))
}

// minChildren: the least number of children an element sequence produces.
func minChildren(elems []*gElem) int {
	n := 0
	for _, el := range elems {
		if el.min == 0 {
			continue
		}
		one := 1
		if el.kind == "group" {
			one = -1
			for _, a := range el.alts {
				if m := minChildren(a.elems); one < 0 || m < one {
					one = m
				}
			}
			if one < 0 {
				one = 0
			}
		}
		n += one * el.min
	}
	return n
}

// tokenType: the generated parser's constant PacketDslParser<NAME>.
func (e *Engine) tokenType(name string) (int64, bool) {
	p := e.prog.ImportedPackage(grammarPkg)
	if p == nil {
		return 0, false
	}
	c, ok := p.Members["PacketDslParser"+name].(*ssa.NamedConst)
	if !ok || c.Value == nil {
		return 0, false
	}
	return c.Value.Int64(), true
}
