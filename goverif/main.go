package main

import (
	"go/types"
	"flag"
	"fmt"
	"os"
	"regexp"
	"sort"
	"strings"
	"time"

	"golang.org/x/tools/go/ssa"
	"golang.org/x/tools/go/ssa/ssautil"
)

// allRepoFunctionsRaw: every function with a body in the repository packages, closures included.
func (e *Engine) allRepoFunctionsRaw() []*ssa.Function {
	var out []*ssa.Function
	for fn := range ssautil.AllFunctions(e.prog) {
		if fn.Blocks == nil || fn.Synthetic != "" {
			continue
		}
		root := fn
		for root.Parent() != nil {
			root = root.Parent()
		}
		if root.Pkg == nil || !e.repoPkgs[root.Pkg.Pkg.Path()] {
			continue
		}
		out = append(out, fn)
	}
	sort.Slice(out, func(i, j int) bool { return out[i].String() < out[j].String() })
	return out
}

func (e *Engine) allRepoFunctions() []*ssa.Function {
	var out []*ssa.Function
	for fn := range ssautil.AllFunctions(e.prog) {
		if fn.Blocks == nil || fn.Pkg == nil || !e.repoPkgs[fn.Pkg.Pkg.Path()] {
			continue
		}
		if fn.Synthetic != "" || strings.HasPrefix(fn.Name(), "_cgo") || strings.HasPrefix(fn.Name(), "_Cfunc") || strings.HasPrefix(fn.Name(), "_Cgo") {
			continue
		}
		pos := e.prog.Fset.Position(fn.Pos())
		if strings.HasSuffix(pos.Filename, "_test.go") {
			continue
		}
		if fn.Parent() != nil && len(fn.FreeVars) > 0 {
			continue // closures with captured variables are verified inside their enclosing function
		}
		out = append(out, fn)
	}
	sort.Slice(out, func(i, j int) bool { return out[i].String() < out[j].String() })
	return out
}

func main() {
	if len(os.Args) < 2 {
		fmt.Println("usage: goverif sweep|check ...")
		os.Exit(2)
	}
	switch os.Args[1] {
	case "sweep":
		cmdSweep(os.Args[2:])
	case "check":
		cmdCheck(os.Args[2:])
	case "emit":
		cmdEmit(os.Args[2:])
	case "crashcorpus":
		e := newEngine()
		outs := runCrashCorpus(e)
		n := 0
		for _, o := range outs {
			if o.Panic != "" {
				n++
				fr := ""
				if len(o.Frames) > 0 {
					fr = o.Frames[0]
				}
				fmt.Printf("PANIC %s %s | %s | %q\n", o.Entry, o.Panic, fr, o.Input)
			}
		}
		fmt.Printf("%d outcomes, %d panics, %d inputs\n", len(outs), n, crashCorpusSize)
	case "corpus":
		e := newEngine()
		for i, s := range candidateInputs(e) {
			fmt.Printf("--- %d\n%s\n", i, s)
		}
	default:
		fmt.Println("unknown command")
		os.Exit(2)
	}
}

func cmdSweep(args []string) {
	fs := flag.NewFlagSet("sweep", flag.ExitOnError)
	match := fs.String("match", "", "regexp on function names")
	kinds := fs.String("kinds", "SAFE,TERM,PRE,POST,INV", "obligation kinds")
	verbose := fs.Bool("v", false, "print failing queries")
	nosolve := fs.Bool("nosolve", false, "do not call solvers")
	fs.Parse(args)
	t0 := time.Now()
	e := newEngine()
	fmt.Printf("loaded in %.1fs\n", time.Since(t0).Seconds())
	e.runInits()
	fmt.Printf("inits done: %d allocations\n", e.initAlloc)
	e.cfg.Kinds = map[string]bool{}
	for _, k := range strings.Split(*kinds, ",") {
		e.cfg.Kinds[k] = true
		if k == "FRAME" {
			e.cfg.CheckFrame = true
		}
	}
	re := regexp.MustCompile(*match)
	if os.Getenv("GOVERIF_PRINTRET") != "" {
		e.onReturn = func(fn *ssa.Function, r pathResult) {
			if len(r.ret) == 0 || len(r.ret[0]) != 2 {
				return
			}
			txt := e.unbox(r.st, types.Typ[types.String], r.ret[0][1])
			fmt.Printf("RET %s: %s\n", e.shortFunc(fn), txt[0])
		}
	}
	var reports []FuncReport
	for _, fn := range e.allRepoFunctions() {
		if !re.MatchString(fn.String()) {
			continue
		}
		if fn.Name() == "init" {
			continue
		}
		rep := e.verifyFunction(fn)
		reports = append(reports, rep)
		status := "ok"
		if rep.Err != "" {
			status = "ERROR " + rep.Err
		}
		fmt.Printf("%-70s paths=%-5d %.2fs %s\n", rep.Func, rep.Paths, rep.Secs, status)
	}
	if !*nosolve {
		e.discharge(10*time.Second, 16)
	}
	nproved, nfailed := 0, 0
	for _, name := range e.oblOrder {
		o := e.obls[name]
		if o.Status == "proved" {
			nproved++
			continue
		}
		nfailed++
		fmt.Printf("FAILED %s [%s] %s (%d instances)\n", name, o.Pos, o.Desc, len(o.Instances))
		if o.Fail != nil {
			fmt.Printf("   verdict=%s backend=%s goal=%s\n", o.Fail.Res.Verdict, o.Fail.Res.Backend, o.Fail.Goal)
			if *verbose {
				for _, a := range o.Fail.Assumptions {
					fmt.Printf("      assume %s\n", a)
				}
				fmt.Println(o.Fail.Res.Model)
			}
		}
	}
	fmt.Printf("obligations=%d proved=%d failed=%d total %.1fs\n", len(e.oblOrder), nproved, nfailed, time.Since(t0).Seconds())
	var as []string
	for a := range e.assumed {
		as = append(as, a)
	}
	sort.Strings(as)
	for _, a := range as {
		fmt.Println("ASSUMED:", a)
	}
}
