package main

// Contracts: Gobra-style structured comments kept in comment-only files
// (zz_verif_contracts.go, build tag `verif`) inside the repository packages.
//
//   //@ func (*BinaryModel).AddPacket
//   //@   requires m != nil && packet != nil
//   //@   ensures  implies(old(haskey(m.PacketsMap, packet.Name)), len(m.Packets) == old(len(m.Packets)))
//   //@   loop 0 invariant forall(i, 0, len(fields), fields[i] != nil)
//   //@ inv *Field: self.Attr != nil
//   //@ pred wfX(p *Packet) := ...
//
// Expression language: Go expressions (go/parser) plus old(e), result / result0.., typeis(x, T),
// fresh(x), haskey(m, k), implies(a, b), forall(i, lo, hi, body), exists(i, lo, hi, body), user predicates.

import (
	"fmt"
	"go/ast"
	"go/parser"
	"go/token"
	"go/types"
	"html/template"
	"os"
	"path/filepath"
	"regexp"
	"strconv"
	"strings"

	"golang.org/x/tools/go/ssa"
)

var reTraceFn = regexp.MustCompile(`\b(nstdout|nfs|ncalls|stdoutline|fskind|fspath|fsdata|callarg|callres|called|calledat|exitcode)\(`)

type specExpr struct {
	traceOnly bool // refers to the ghost effect trace of the function's own activation: checked, never assumed at call sites
	text      string
	ast       ast.Expr
	pkg       *types.Package
	label     string
}

type Contract struct {
	key          string
	pkg          *types.Package
	requires     []*specExpr
	ensures      []*specExpr
	exits        []*specExpr // must hold on every path that ends in os.Exit
	decreases    *specExpr
	loopInv      map[int][]*specExpr
	loopDec      map[int]*specExpr
	loopIter     map[int][]*specExpr // checked at every back edge: effects of one complete iteration
	hasModifies  bool
	modifiesFams []string
	inlineOnly   bool
	trusted      bool // contract assumed, body not verified against it
	synthesized  bool
	termAssumed  string
	framed       bool        // writes only objects allocated by the activation itself, except frameExcept
	frameExcept  []*specExpr // objects (references) that may be written although they existed before
	used         bool
	file         string
}

type typeInv struct {
	typeStr string
	exprs   []*specExpr
}

type predDef struct {
	name   string
	params []string
	ptypes []string
	body   *specExpr
	pkg    *types.Package
}

type Contracts struct {
	methods map[string]*Contract // receiver type key "(*parser.PacketDslFormattor)" -> template
	merged  map[string]*Contract
	byKey   map[string]*Contract
	invs    map[string]*typeInv // by type key e.g. "*model.Field"
	preds   map[string]*predDef
	files   []string
	raw     map[string][]string
}

var reImplies = regexp.MustCompile(`==>`)

func loadContracts(e *Engine, dirs map[string]*types.Package) *Contracts {
	cs := &Contracts{methods: map[string]*Contract{}, merged: map[string]*Contract{}, byKey: map[string]*Contract{}, invs: map[string]*typeInv{}, preds: map[string]*predDef{}, raw: map[string][]string{}}
	for dir, pkg := range dirs {
		files, _ := filepath.Glob(filepath.Join(dir, "zz_verif_contracts*.go"))
		for _, f := range files {
			cs.files = append(cs.files, f)
			b, err := os.ReadFile(f)
			if err != nil {
				panic(err)
			}
			cs.parseFile(e, f, string(b), pkg)
			_ = pkg
		}
	}
	return cs
}

func (cs *Contracts) parseFile(e *Engine, file, src string, pkg *types.Package) {
	var cur *Contract
	lines := strings.Split(src, "\n")
	for ln := 0; ln < len(lines); ln++ {
		line := strings.TrimSpace(lines[ln])
		if !strings.HasPrefix(line, "//@") {
			continue
		}
		body := strings.TrimSpace(line[3:])
		// continuation lines: "//@ |  ..."
		for ln+1 < len(lines) {
			nx := strings.TrimSpace(lines[ln+1])
			if strings.HasPrefix(nx, "//@") && strings.HasPrefix(strings.TrimSpace(nx[3:]), "|") {
				body += " " + strings.TrimSpace(strings.TrimSpace(nx[3:])[1:])
				ln++
				continue
			}
			break
		}
		if body == "" {
			continue
		}
		if i := strings.Index(body, " //"); i >= 0 {
			body = strings.TrimSpace(body[:i])
		}
		word, rest := splitWord(body)
		mk := func(text string) *specExpr { return cs.mkExpr(text, pkg, file, ln+1) }
		switch word {
		case "func":
			key := rest
			// qualify with the package name
			key = qualifyKey(key, pkgQual(pkg))
			if existing := cs.byKey[key]; existing != nil {
				cur = existing // several blocks for one function are merged
			} else {
				cur = &Contract{key: key, pkg: pkg, loopInv: map[int][]*specExpr{}, loopDec: map[int]*specExpr{}, file: file}
				cs.byKey[key] = cur
			}
		case "methods":
			key := qualifyKey(rest+".", pkgQual(pkg))
			key = strings.TrimSuffix(key, ".")
			cur = &Contract{key: key, pkg: pkg, loopInv: map[int][]*specExpr{}, loopDec: map[int]*specExpr{}, file: file}
			cs.methods[key] = cur
		case "requires":
			cur.requires = append(cur.requires, mk(rest))
		case "ensures":
			cur.ensures = append(cur.ensures, mk(rest))
		case "decreases":
			cur.decreases = mk(rest)
		case "exits":
			cur.exits = append(cur.exits, mk(rest))
		case "inline":
			cur.inlineOnly = true
		case "terminates-assumed":
			cur.termAssumed = rest
		case "modifies-fresh":
			cur.framed = true
			for _, part := range splitTop(rest, ',') {
				part = strings.TrimSpace(part)
				if part != "" {
					cur.frameExcept = append(cur.frameExcept, mk(part))
				}
			}
		case "trusted":
			cur.trusted = true
		case "modifies":
			cur.hasModifies = true
			for _, f := range strings.Split(rest, ",") {
				f = strings.TrimSpace(f)
				if f != "" && f != "nothing" {
					cur.modifiesFams = append(cur.modifiesFams, f)
				}
			}
		case "loop":
			nstr, r2 := splitWord(rest)
			n, err := strconv.Atoi(nstr)
			if err != nil {
				panic(fmt.Sprintf("%s:%d: loop ordinal expected", file, ln+1))
			}
			w2, r3 := splitWord(r2)
			switch w2 {
			case "invariant":
				cur.loopInv[n] = append(cur.loopInv[n], mk(r3))
			case "decreases":
				cur.loopDec[n] = mk(r3)
			case "iteration-ensures":
				if cur.loopIter == nil {
					cur.loopIter = map[int][]*specExpr{}
				}
				cur.loopIter[n] = append(cur.loopIter[n], mk(r3))
			default:
				panic(fmt.Sprintf("%s:%d: loop clause %q", file, ln+1, w2))
			}
		case "inv":
			i := strings.Index(rest, ":")
			ts := strings.TrimSpace(rest[:i])
			ts = qualifyType(ts, pkgQual(pkg))
			ti := cs.invs[ts]
			if ti == nil {
				ti = &typeInv{typeStr: ts}
				cs.invs[ts] = ti
			}
			ti.exprs = append(ti.exprs, mk(strings.TrimSpace(rest[i+1:])))
		case "pred":
			// pred name(a T, b U) := expr
			i := strings.Index(rest, ":=")
			head := strings.TrimSpace(rest[:i])
			lp := strings.Index(head, "(")
			name := head[:lp]
			pd := &predDef{name: name, pkg: pkg, body: mk(strings.TrimSpace(rest[i+2:]))}
			for _, p := range strings.Split(head[lp+1:len(head)-1], ",") {
				p = strings.TrimSpace(p)
				if p == "" {
					continue
				}
				n, t := splitWord(p)
				pd.params = append(pd.params, n)
				pd.ptypes = append(pd.ptypes, t)
			}
			cs.preds[name] = pd
		default:
			panic(fmt.Sprintf("%s:%d: unknown contract clause %q", file, ln+1, word))
		}
	}
}

// pkgQual: the qualifier used in function / type keys: last element of the import path.
func pkgQual(pkg *types.Package) string {
	p := pkg.Path()
	if i := strings.LastIndex(p, "/"); i >= 0 {
		return p[i+1:]
	}
	return p
}

func splitWord(s string) (string, string) {
	s = strings.TrimSpace(s)
	i := strings.IndexAny(s, " \t")
	if i < 0 {
		return s, ""
	}
	return s[:i], strings.TrimSpace(s[i:])
}

func qualifyKey(key, pkg string) string {
	// "(*T).M" -> "(*pkg.T).M"; "(T).M" -> "(pkg.T).M"; "f" -> "pkg.f"; "f$1" stays
	if strings.HasPrefix(key, "(*") {
		return "(*" + pkg + "." + key[2:]
	}
	if strings.HasPrefix(key, "(") {
		return "(" + pkg + "." + key[1:]
	}
	return pkg + "." + key
}

func qualifyType(ts, pkg string) string {
	star := ""
	for strings.HasPrefix(ts, "*") {
		star += "*"
		ts = ts[1:]
	}
	if strings.HasPrefix(ts, "[]") {
		return star + "[]" + qualifyType(ts[2:], pkg)
	}
	if !strings.Contains(ts, ".") {
		ts = pkg + "." + ts
	}
	return star + ts
}

// rewriteImplies turns the infix `a ==> b` (lowest precedence, right associative) into implies(a, b).
func rewriteImplies(s string) string {
	depth := 0
	inStr := byte(0)
	for i := 0; i+2 < len(s); i++ {
		c := s[i]
		if inStr != 0 {
			if c == '\\' {
				i++
			} else if c == inStr {
				inStr = 0
			}
			continue
		}
		switch c {
		case '"', '\'', '`':
			inStr = c
		case '(', '[':
			depth++
		case ')', ']':
			depth--
		case '=':
			if depth == 0 && s[i:i+3] == "==>" {
				return "implies(" + rewriteImpliesInner(s[:i]) + ", " + rewriteImplies(s[i+3:]) + ")"
			}
		}
	}
	return rewriteImpliesInner(s)
}

// rewriteImpliesInner handles ==> nested inside parentheses / call arguments.
func rewriteImpliesInner(s string) string {
	if !strings.Contains(s, "==>") {
		return s
	}
	// find parenthesised groups and rewrite recursively
	var out strings.Builder
	i := 0
	for i < len(s) {
		c := s[i]
		if c == '(' {
			depth := 0
			j := i
			for ; j < len(s); j++ {
				if s[j] == '(' {
					depth++
				} else if s[j] == ')' {
					depth--
					if depth == 0 {
						break
					}
				}
			}
			inner := s[i+1 : j]
			// split on top-level commas
			parts := splitTop(inner, ',')
			for k := range parts {
				parts[k] = rewriteImplies(parts[k])
			}
			out.WriteString("(" + strings.Join(parts, ",") + ")")
			i = j + 1
			continue
		}
		out.WriteByte(c)
		i++
	}
	return out.String()
}

func splitTop(s string, sep byte) []string {
	var parts []string
	depth := 0
	st := 0
	inStr := byte(0)
	for i := 0; i < len(s); i++ {
		c := s[i]
		if inStr != 0 {
			if c == '\\' {
				i++
			} else if c == inStr {
				inStr = 0
			}
			continue
		}
		switch c {
		case '"', '\'', '`':
			inStr = c
		case '(', '[', '{':
			depth++
		case ')', ']', '}':
			depth--
		default:
			if c == sep && depth == 0 {
				parts = append(parts, s[st:i])
				st = i + 1
			}
		}
	}
	return append(parts, s[st:])
}

func (cs *Contracts) mkExpr(text string, pkg *types.Package, file string, line int) *specExpr {
	label := ""
	if strings.HasPrefix(text, "[") {
		if i := strings.Index(text, "]"); i > 0 {
			label = text[1:i]
			text = strings.TrimSpace(text[i+1:])
		}
	}
	src := rewriteImplies(text)
	x, err := parser.ParseExpr(src)
	if err != nil {
		panic(fmt.Sprintf("%s:%d: cannot parse spec expression %q: %v", file, line, src, err))
	}
	return &specExpr{text: text, ast: x, pkg: pkg, label: label, traceOnly: reTraceFn.MatchString(text)}
}

func (cs *Contracts) lookup(e *Engine, fn *ssa.Function) *Contract {
	if cs == nil {
		return nil
	}
	key := e.shortFunc(fn)
	if c, ok := cs.merged[key]; ok {
		return c
	}
	c := cs.byKey[key]
	if c != nil {
		c.used = true
	}
	// uniform contracts attached to every method of a receiver type
	if i := strings.Index(key, ")."); i > 0 && strings.HasPrefix(key, "(") && fn.Synthetic == "" {
		if tmpl := cs.methods[key[:i+1]]; tmpl != nil {
			m := &Contract{key: key, pkg: tmpl.pkg, loopInv: map[int][]*specExpr{}, loopDec: map[int]*specExpr{}, file: tmpl.file}
			if c != nil {
				*m = *c
			}
			m.requires = append(append([]*specExpr{}, tmpl.requires...), m.requires...)
			m.ensures = append(append([]*specExpr{}, tmpl.ensures...), m.ensures...)
			if tmpl.framed {
				m.framed = true
				m.frameExcept = append(append([]*specExpr{}, tmpl.frameExcept...), m.frameExcept...)
			}
			if tmpl.inlineOnly {
				m.inlineOnly = true
			}
			if c == nil && e.cfg.PhaseB(fn) && e.smallLeaf(fn) {
				m.inlineOnly = true // small leaves stay inlined; the uniform requires still hold at entry
			}
			c = m
		}
	}
	// generator phase: every non-trivial function is called through its (possibly empty) contract
	if c == nil && fn.Blocks != nil && fn.Synthetic == "" && e.cfg.PhaseB(fn) && !e.smallLeaf(fn) {
		c = &Contract{key: key, loopInv: map[int][]*specExpr{}, loopDec: map[int]*specExpr{}, synthesized: true, framed: true}
		if fn.Pkg != nil {
			c.pkg = fn.Pkg.Pkg
		}
	}
	if c != nil && fn.Blocks != nil && e.cfg.PhaseB(fn) {
		c.framed = true // uniform generator contract: FRAME (C14)
	}
	cs.merged[key] = c
	return c
}

// smallLeaf: loop-free functions of at most 80 instructions that call no other in-scope generator
// function except small leaves are inlined (their real body is used at the call site).
func (e *Engine) smallLeaf(fn *ssa.Function) bool {
	if v, ok := smallLeafMemo[fn]; ok {
		return v
	}
	smallLeafMemo[fn] = false
	n := 0
	ok := len(e.loops(fn).headers) == 0
	for _, b := range fn.Blocks {
		n += len(b.Instrs)
	}
	if n > 80 {
		ok = false
	}
	if ok {
		for _, c := range e.staticCallees(fn) {
			if c != fn && e.cfg.PhaseB(c) && !e.smallLeaf(c) {
				ok = false
			}
			if c == fn {
				ok = false
			}
		}
	}
	smallLeafMemo[fn] = ok
	return ok
}

var smallLeafMemo = map[*ssa.Function]bool{}

func (cs *Contracts) loopInvariants(e *Engine, fn *ssa.Function, ord int) []*specExpr {
	c := cs.lookup(e, fn)
	if c == nil {
		return nil
	}
	return c.loopInv[ord]
}

func (cs *Contracts) loopDecreases(e *Engine, fn *ssa.Function, ord int) *specExpr {
	c := cs.lookup(e, fn)
	if c == nil {
		return nil
	}
	return c.loopDec[ord]
}

// ---------------------------------------------------------------- evaluation

type specVal struct {
	v Value
	t types.Type // nil for untyped nil
}

type specEnv struct {
	wm, wmpost *Term // set while evaluating a callee's postcondition: fresh(x) means allocated by that call
	vars       map[string]specVal
	heap       Heap
	oldHeap    Heap
	hasOld     bool
	pkg        *types.Package
	s          *State
	bound      []*Term
	quant      bool     // inside a quantifier body: no side assumptions about bound terms
	entryEnv   *specEnv // environment of entry(e) inside loop invariants
	iterFrom   int      // iteration-ensures: index of the first trace event of the current iteration (-1: none)
}

func (e *Engine) envForFrame(s *State, f *Frame, extra map[string]specVal) *specEnv {
	env := &specEnv{vars: map[string]specVal{}, heap: s.heap, oldHeap: f.oldHeap, hasOld: true, s: s}
	for i, p := range f.fn.Params {
		var sv specVal
		if i < len(f.params) {
			sv = specVal{f.params[i], p.Type()}
		} else if v, ok := f.regs[p]; ok {
			sv = specVal{v, p.Type()}
		} else {
			continue
		}
		env.vars[p.Name()] = sv
		if i == 0 && f.fn.Signature.Recv() != nil {
			env.vars["self"] = sv
		}
	}
	// named locals visible through debug info are not available; loop invariants name SSA
	// header phis by their source comment (variable name)
	for _, b := range f.fn.Blocks {
		for _, in := range b.Instrs {
			if p, ok := in.(*ssa.Phi); ok && p.Comment != "" {
				if v, ok := f.regs[p]; ok {
					env.vars[p.Comment] = specVal{v, p.Type()}
				}
			}
		}
	}
	// source-level names of other locals: DebugRef instructions (ssa.GlobalDebug)
	for _, b := range f.fn.Blocks {
		for _, in := range b.Instrs {
			if d, ok := in.(*ssa.DebugRef); ok && !d.IsAddr {
				if id, ok := d.Expr.(*ast.Ident); ok {
					if _, exists := env.vars[id.Name]; exists {
						continue
					}
					// only local variables: the key identifiers of composite literals and constants
					// also get debug references and must not shadow package-level names
					if ov, isVar := d.Object().(*types.Var); !isVar || ov.IsField() || (ov.Pkg() != nil && ov.Parent() == ov.Pkg().Scope()) {
						continue
					}
					if v, ok := f.regs[d.X]; ok {
						env.vars[id.Name] = specVal{v, d.X.Type()}
					}
				}
			}
		}
	}
	// source-level names of registers defined outside loops (via DebugRef-less heuristic: Alloc comments)
	for val, v := range f.regs {
		if a, ok := val.(*ssa.Alloc); ok && a.Comment != "" {
			if _, exists := env.vars["&"+a.Comment]; !exists {
				env.vars["&"+a.Comment] = specVal{v, a.Type()}
			}
		}
	}
	for k, v := range extra {
		env.vars[k] = v
	}
	return env
}

func (e *Engine) evalSpecBool(s *State, f *Frame, x *specExpr, extra map[string]specVal) *Term {
	env := e.envForFrame(s, f, extra)
	env.pkg = x.pkg
	env.wm, env.wmpost = f.wm, f.wmpost
	r := e.evalSpec(env, x.ast)
	if len(r.v) != 1 || r.v[0].S != SBool {
		e.fail("spec expression %q is not boolean", x.text)
	}
	return r.v[0]
}

func (e *Engine) specFail(x ast.Expr, msg string) {
	e.fail("spec: %s in %s", msg, types.ExprString(x))
}

func (e *Engine) evalSpec(env *specEnv, x ast.Expr) specVal {
	intT := types.Typ[types.Int]
	boolT := types.Typ[types.Bool]
	strT := types.Typ[types.String]
	switch n := x.(type) {
	case *ast.ParenExpr:
		return e.evalSpec(env, n.X)
	case *ast.BasicLit:
		switch n.Kind {
		case token.INT:
			i, _ := strconv.ParseInt(n.Value, 0, 64)
			return specVal{Value{Int(i)}, intT}
		case token.STRING:
			sv, _ := strconv.Unquote(n.Value)
			return specVal{Value{Str(sv)}, strT}
		case token.CHAR:
			sv, _ := strconv.Unquote(n.Value)
			return specVal{Value{Int(int64([]rune(sv)[0]))}, intT}
		}
	case *ast.Ident:
		switch n.Name {
		case "true":
			return specVal{Value{True}, boolT}
		case "false":
			return specVal{Value{False}, boolT}
		case "nil":
			return specVal{nil, nil}
		}
		if v, ok := env.vars[n.Name]; ok {
			return v
		}
		if env.pkg != nil {
			if obj := env.pkg.Scope().Lookup(n.Name); obj != nil {
				if c, ok := obj.(*types.Const); ok {
					return e.constSpec(c)
				}
				if gv, ok := obj.(*types.Var); ok {
					// package-level variable: read from the heap
					pl := Place{Prefix: "global(" + e.typeKey(gv.Type()) + ":" + gv.Pkg().Name() + "." + gv.Name() + ")"}
					return specVal{e.loadIn(env, pl, gv.Type()), gv.Type()}
				}
			}
		}
		e.specFail(x, "unknown identifier "+n.Name)
	case *ast.UnaryExpr:
		a := e.evalSpec(env, n.X)
		switch n.Op {
		case token.NOT:
			return specVal{Value{Not(a.v[0])}, boolT}
		case token.SUB:
			return specVal{Value{Sub(Zero, a.v[0])}, a.t}
		}
	case *ast.BinaryExpr:
		switch n.Op {
		case token.LAND:
			a := e.evalSpec(env, n.X)
			b := e.evalSpec(env, n.Y)
			return specVal{Value{And(a.v[0], b.v[0])}, boolT}
		case token.LOR:
			a := e.evalSpec(env, n.X)
			b := e.evalSpec(env, n.Y)
			return specVal{Value{Or(a.v[0], b.v[0])}, boolT}
		}
		a := e.evalSpec(env, n.X)
		b := e.evalSpec(env, n.Y)
		switch n.Op {
		case token.EQL, token.NEQ:
			var c *Term
			switch {
			case a.t == nil && b.t == nil:
				c = True
			case b.t == nil:
				c = Eq(a.v[0], Zero)
			case a.t == nil:
				c = Eq(b.v[0], Zero)
			default:
				if _, isIface := a.t.Underlying().(*types.Interface); isIface {
					c = And(Eq(a.v[0], b.v[0]), Eq(a.v[1], b.v[1]))
				} else if _, isSl := a.t.Underlying().(*types.Slice); isSl {
					c = And(Eq(a.v[0], b.v[0]), Eq(a.v[1], b.v[1]), Eq(a.v[2], b.v[2]))
				} else {
					var cs []*Term
					for i := range a.v {
						if i >= len(b.v) || a.v[i].S != b.v[i].S {
							cs = append(cs, False) // comparison with a missing trace value
							continue
						}
						cs = append(cs, Eq(a.v[i], b.v[i]))
					}
					c = And(cs...)
				}
			}
			if n.Op == token.NEQ {
				c = Not(c)
			}
			return specVal{Value{c}, boolT}
		case token.LSS:
			return specVal{Value{Lt(a.v[0], b.v[0])}, boolT}
		case token.LEQ:
			return specVal{Value{Le(a.v[0], b.v[0])}, boolT}
		case token.GTR:
			return specVal{Value{Lt(b.v[0], a.v[0])}, boolT}
		case token.GEQ:
			return specVal{Value{Le(b.v[0], a.v[0])}, boolT}
		case token.ADD:
			if a.v[0].S == SStr {
				return specVal{Value{Concat(a.v[0], b.v[0])}, strT}
			}
			return specVal{Value{Add(a.v[0], b.v[0])}, a.t}
		case token.SUB:
			return specVal{Value{Sub(a.v[0], b.v[0])}, a.t}
		case token.MUL:
			return specVal{Value{Mul(a.v[0], b.v[0])}, a.t}
		}
	case *ast.StarExpr:
		a := e.evalSpec(env, n.X)
		pt := a.t.Underlying().(*types.Pointer).Elem()
		return specVal{e.loadIn(env, e.placeOf(a.v[0], pt), pt), pt}
	case *ast.SelectorExpr:
		// package-qualified constant?
		if id, ok := n.X.(*ast.Ident); ok {
			if _, isVar := env.vars[id.Name]; !isVar {
				if p := e.pkgByName(id.Name); p != nil {
					if obj := p.Pkg.Scope().Lookup(n.Sel.Name); obj != nil {
						if c, ok := obj.(*types.Const); ok {
							return e.constSpec(c)
						}
					}
				}
				if p := e.anyPkgByName(id.Name); p != nil {
					if gv, ok := p.Pkg.Scope().Lookup(n.Sel.Name).(*types.Var); ok {
						pl := Place{Prefix: "global(" + e.typeKey(gv.Type()) + ":" + gv.Pkg().Name() + "." + gv.Name() + ")"}
						return specVal{e.loadIn(env, pl, gv.Type()), gv.Type()}
					}
				}
			}
		}
		a := e.evalSpec(env, n.X)
		t := a.t
		if p, ok := t.Underlying().(*types.Pointer); ok {
			st, ok := p.Elem().Underlying().(*types.Struct)
			if !ok {
				e.specFail(x, "selector on non-struct pointer")
			}
			idx := fieldIndex(st, n.Sel.Name)
			if idx < 0 {
				e.specFail(x, "no field "+n.Sel.Name)
			}
			pl := e.placeOf(a.v[0], p.Elem())
			ft := st.Field(idx).Type()
			return specVal{e.loadIn(env, Place{Prefix: pl.Prefix + "." + n.Sel.Name, Addr: pl.Addr}, ft), ft}
		}
		if st, ok := t.Underlying().(*types.Struct); ok {
			idx := fieldIndex(st, n.Sel.Name)
			if idx < 0 {
				e.specFail(x, "no field "+n.Sel.Name)
			}
			off, ln := e.fieldRange(st, idx)
			return specVal{a.v[off : off+ln], st.Field(idx).Type()}
		}
		e.specFail(x, "selector on "+t.String())
	case *ast.IndexExpr:
		a := e.evalSpec(env, n.X)
		i := e.evalSpec(env, n.Index)
		switch u := a.t.Underlying().(type) {
		case *types.Slice:
			pl := Place{Prefix: "elem(" + e.typeKey(u.Elem()) + ")", Addr: []*Term{a.v[0], Add(a.v[1], i.v[0])}}
			return specVal{e.loadIn(env, pl, u.Elem()), u.Elem()}
		case *types.Map:
			tk := e.typeKey(u)
			addr := append([]*Term{a.v[0]}, i.v...)
			l := e.layout(u.Elem())
			v := make(Value, len(l))
			has := And(Ne(a.v[0], Zero), env.s.selectIn(env.heap, "mapdom("+tk+")", SBool, addr))
			for k, sl := range l {
				raw := env.s.selectIn(env.heap, "mapval("+tk+")"+sl.Suffix, sl.Sort, addr)
				if _, isPtr := u.Elem().Underlying().(*types.Pointer); isPtr && k == 0 {
					noteQuantRefSlot(raw)
				}
				v[k] = Ite(has, raw, zeroOf(sl.Sort))
			}
			return specVal{v, u.Elem()}
		case *types.Array:
			// array values are flattened element by element: constant index only
			if i.v[0].K == KInt && i.v[0].I >= 0 && i.v[0].I < u.Len() {
				n := len(e.layout(u.Elem()))
				k := int(i.v[0].I) * n
				return specVal{append(Value{}, a.v[k:k+n]...), u.Elem()}
			}
		}
		e.specFail(x, "index on "+a.t.String())
	case *ast.CallExpr:
		return e.evalSpecCall(env, n)
	}
	e.specFail(x, fmt.Sprintf("unsupported expression form %T", x))
	return specVal{}
}

func fieldIndex(st *types.Struct, name string) int {
	for i := 0; i < st.NumFields(); i++ {
		if st.Field(i).Name() == name {
			return i
		}
	}
	return -1
}

func (e *Engine) pkgByName(name string) *ssa.Package {
	for _, p := range e.prog.AllPackages() {
		if p.Pkg.Name() == name && (e.repoPkgs[p.Pkg.Path()] || p.Pkg.Path() == grammarPkg || p.Pkg.Path() == antlrPkg) {
			return p
		}
	}
	return nil
}

func (e *Engine) anyPkgByName(name string) *ssa.Package {
	for _, p := range e.prog.AllPackages() {
		if p.Pkg.Name() == name {
			return p
		}
	}
	return nil
}

func (e *Engine) constSpec(c *types.Const) specVal {
	return specVal{e.constValue(ssa.NewConst(c.Val(), c.Type())), c.Type()}
}

func (e *Engine) loadIn(env *specEnv, pl Place, t types.Type) Value {
	if len(pl.Addr) == 2 && strings.HasPrefix(pl.Prefix, "elem(") {
		if f, ok := e.arrSpecs[stripNilIte(pl.Addr[0])]; ok {
			return f(pl.Addr[1])
		}
	}
	l := e.layout(t)
	v := make(Value, len(l))
	for i, sl := range l {
		v[i] = env.s.selectIn(env.heap, pl.Prefix+sl.Suffix, sl.Sort, pl.Addr)
	}
	if len(env.bound) == 0 && !env.quant {
		e.typingAssume(env.s, t, v)
		e.allocatedAssume(env.s, t, v)
	} else {
		switch t.Underlying().(type) {
		case *types.Pointer, *types.Map, *types.Slice:
			noteQuantRefSlot(v[0])
		case *types.Interface:
			if len(v) > 1 {
				noteQuantRefSlot(v[1])
			}
		}
	}
	return v
}

// resolveType: a type expression in a contract (e.g. *model.Field, string, []MatchPair).
func (e *Engine) resolveType(env *specEnv, x ast.Expr) types.Type {
	switch n := x.(type) {
	case *ast.StarExpr:
		return types.NewPointer(e.resolveType(env, n.X))
	case *ast.ParenExpr:
		return e.resolveType(env, n.X)
	case *ast.ArrayType:
		if n.Len == nil {
			return types.NewSlice(e.resolveType(env, n.Elt))
		}
	case *ast.Ident:
		if obj := types.Universe.Lookup(n.Name); obj != nil {
			return obj.Type()
		}
		if env.pkg != nil {
			if obj := env.pkg.Scope().Lookup(n.Name); obj != nil {
				return obj.Type()
			}
		}
	case *ast.SelectorExpr:
		if id, ok := n.X.(*ast.Ident); ok {
			if p := e.pkgByName(id.Name); p != nil {
				if obj := p.Pkg.Scope().Lookup(n.Sel.Name); obj != nil {
					return obj.Type()
				}
			}
		}
	}
	e.specFail(x, "cannot resolve type")
	return nil
}

func (e *Engine) evalSpecCall(env *specEnv, n *ast.CallExpr) specVal {
	boolT := types.Typ[types.Bool]
	intT := types.Typ[types.Int]
	name := ""
	if id, ok := n.Fun.(*ast.Ident); ok {
		name = id.Name
	}
	if sel, ok := n.Fun.(*ast.SelectorExpr); ok {
		// pkg.pred(...)
		name = sel.Sel.Name
	}
	switch name {
	case "len":
		a := e.evalSpec(env, n.Args[0])
		switch u := a.t.Underlying().(type) {
		case *types.Slice:
			return specVal{Value{a.v[2]}, intT}
		case *types.Basic:
			return specVal{Value{StrLen(a.v[0])}, intT}
		case *types.Map:
			return specVal{Value{Ite(Eq(a.v[0], Zero), Zero, env.s.selectIn(env.heap, "maplen("+e.typeKey(u)+")", SInt, []*Term{a.v[0]}))}, intT}
		}
		e.specFail(n, "len of "+a.t.String())
	case "old":
		if !env.hasOld {
			e.specFail(n, "old() outside a postcondition")
		}
		sub := *env
		sub.heap = env.oldHeap
		if ov, ok := env.vars["$oldvars"]; ok {
			_ = ov
		}
		return e.evalSpec(&sub, n.Args[0])
	case "entry":
		if env.entryEnv == nil {
			e.specFail(n, "entry() outside a loop invariant")
		}
		// variables bound by enclosing quantifiers are visible inside entry(...)
		sub := *env.entryEnv
		sub.vars = map[string]specVal{}
		for k, v := range env.vars {
			if strings.HasPrefix(vKey(v), "bv.") {
				sub.vars[k] = v
			}
		}
		for k, v := range env.entryEnv.vars {
			if _, bound := sub.vars[k]; !bound {
				sub.vars[k] = v
			}
		}
		return e.evalSpec(&sub, n.Args[0])
	case "implies":
		a := e.evalSpec(env, n.Args[0])
		b := e.evalSpec(env, n.Args[1])
		return specVal{Value{Implies(a.v[0], b.v[0])}, boolT}
	case "ite":
		c := e.evalSpec(env, n.Args[0])
		a := e.evalSpec(env, n.Args[1])
		b := e.evalSpec(env, n.Args[2])
		v := make(Value, len(a.v))
		for i := range a.v {
			v[i] = Ite(c.v[0], a.v[i], b.v[i])
		}
		return specVal{v, a.t}
	case "typeis":
		a := e.evalSpec(env, n.Args[0])
		t := e.resolveType(env, n.Args[1])
		return specVal{Value{e.implCond(a.v[0], t)}, boolT}
	case "unbox":
		// unbox(x, T): the value of dynamic type T held by interface x
		a := e.evalSpec(env, n.Args[0])
		t := e.resolveType(env, n.Args[1])
		if isPointerShaped(t) {
			return specVal{Value{a.v[1]}, t}
		}
		return specVal{e.loadIn(env, Place{Prefix: "box(" + e.typeKey(t) + ")", Addr: []*Term{a.v[1]}}, t), t}
	case "fresh":
		a := e.evalSpec(env, n.Args[0])
		if env.wm != nil {
			return specVal{Value{And(Lt(env.wm, a.v[0]), Le(a.v[0], env.wmpost))}, boolT}
		}
		return specVal{Value{freshCond(a.v[0])}, boolT}
	case "existed":
		// existed(x): x is nil or an object that existed when the function under verification was entered
		a := e.evalSpec(env, n.Args[0])
		return specVal{Value{Le(a.v[len(a.v)-1], Sym("ALLOC0", SInt))}, boolT}
	case "allocated":
		// allocated(x): x is nil or an object that exists now (at most the current allocation watermark)
		a := e.evalSpec(env, n.Args[0])
		if env.wmpost != nil {
			return specVal{Value{Le(a.v[0], env.wmpost)}, boolT}
		}
		return specVal{Value{Le(a.v[0], env.s.allocTop())}, boolT}
	case "haskey":
		m := e.evalSpec(env, n.Args[0])
		k := e.evalSpec(env, n.Args[1])
		mt := m.t.Underlying().(*types.Map)
		addr := append([]*Term{m.v[0]}, k.v...)
		return specVal{Value{And(Ne(m.v[0], Zero), env.s.selectIn(env.heap, "mapdom("+e.typeKey(mt)+")", SBool, addr))}, boolT}
	case "forall", "exists":
		id := n.Args[0].(*ast.Ident).Name
		lo := e.evalSpec(env, n.Args[1])
		hi := e.evalSpec(env, n.Args[2])
		e.symN++
		bv := Sym(fmt.Sprintf("bv.%s#%d", id, e.symN), SInt)
		sub := *env
		sub.vars = map[string]specVal{}
		for k, v := range env.vars {
			sub.vars[k] = v
		}
		sub.vars[id] = specVal{Value{bv}, intT}
		sub.quant = true
		body := e.evalSpec(&sub, n.Args[3])
		rng := And(Le(lo.v[0], bv), Lt(bv, hi.v[0]))
		if name == "forall" {
			return specVal{Value{Forall(bv, Implies(rng, body.v[0]))}, boolT}
		}
		return specVal{Value{Not(Forall(bv, Not(And(rng, body.v[0]))))}, boolT}
	case "strlen":
		a := e.evalSpec(env, n.Args[0])
		return specVal{Value{StrLen(a.v[0])}, intT}
	case "nstdout", "nfs", "ncalls", "stdoutline", "fskind", "fspath", "fsdata", "callarg", "callres", "exitcode", "called", "calledat":
		return e.evalTraceSpec(env, name, n)
	case "atcall":
		// atcall("f", k, expr): expr evaluated in the heap as it was just before the k-th recorded call of f
		fnm, _ := strconv.Unquote(n.Args[0].(*ast.BasicLit).Value)
		k := int(e.evalSpec(env, n.Args[1]).v[0].I)
		cnt := 0
		for _, ev := range env.s.trace {
			if ev.Kind == "call" && (ev.Note == fnm || strings.HasSuffix(ev.Note, fnm)) {
				if cnt == k && ev.Pre != nil {
					sub := *env
					sub.heap = *ev.Pre
					return e.evalSpec(&sub, n.Args[2])
				}
				cnt++
			}
		}
		e.specFail(n, "no such recorded call")
	case "mapstr":
		// mapstr(ref, key): value of a map[string]string object at key (current heap)
		a := e.evalSpec(env, n.Args[0])
		k := e.evalSpec(env, n.Args[1])
		addr := []*Term{a.v[0], k.v[0]}
		has := env.s.selectIn(env.heap, "mapdom(map[string]string)", SBool, addr)
		return specVal{Value{Ite(has, env.s.selectIn(env.heap, "mapval(map[string]string)", SStr, addr), EmptyStr)}, types.Typ[types.String]}
	case "globaladdr":
		// globaladdr(v): address of the package-level variable v of the contract's package
		id := n.Args[0].(*ast.Ident).Name
		gv, ok := env.pkg.Scope().Lookup(id).(*types.Var)
		if !ok {
			e.specFail(n, "not a package-level variable")
		}
		return specVal{Value{e.globalPlace(types.NewPointer(gv.Type()), gv.Pkg().Name(), gv.Name())}, types.NewPointer(gv.Type())}
	case "cstring":
		a := e.evalSpec(env, n.Args[0])
		return specVal{Value{env.s.selectIn(env.heap, "cgo.cstring", SStr, []*Term{a.v[0]})}, types.Typ[types.String]}
	case "ptr":
		// ptr(x, *T): the reference x (e.g. a call-trace slot) seen as a pointer of type *T
		a := e.evalSpec(env, n.Args[0])
		t := e.resolveType(env, n.Args[1])
		return specVal{Value{a.v[0]}, t}
	case "istokentext":
		// the string is a text produced by the lexer (token or node text), not computed from one
		a := e.evalSpec(env, n.Args[0])
		return specVal{Value{App("istoktext", SBool, a.v[0])}, boolT}
	case "filecontent":
		// the content os.ReadFile(path) returns when it is the k-th effect of the run (k = number of
		// file-system / stdout effects before the read)
		a := e.evalSpec(env, n.Args[0])
		k := e.evalSpec(env, n.Args[1])
		return specVal{Value{App("fs.content", SStr, a.v[0], k.v[0])}, types.Typ[types.String]}
	case "gostring":
		a := e.evalSpec(env, n.Args[0])
		return specVal{Value{App("cgo.GoString", SStr, a.v[0])}, types.Typ[types.String]}
	case "errmsg":
		a := e.evalSpec(env, n.Args[0])
		return specVal{Value{App("err.msg", SStr, a.v[0], a.v[1])}, types.Typ[types.String]}
	case "errmsg2":
		a := e.evalSpec(env, n.Args[0])
		b := e.evalSpec(env, n.Args[1])
		return specVal{Value{App("err.msg", SStr, a.v[0], b.v[0])}, types.Typ[types.String]}
	case "bytestr":
		a := e.evalSpec(env, n.Args[0])
		return specVal{Value{env.s.selectIn(env.heap, "bytesof", SStr, []*Term{a.v[0]})}, types.Typ[types.String]}
	case "validtemplate":
		a := e.evalSpec(env, n.Args[0])
		if a.v[0].K == KStrLit {
			_, err := template.New("x").Parse(a.v[0].Name)
			return specVal{Value{Bool(err == nil)}, boolT}
		}
		return specVal{Value{App("validtemplate", SBool, a.v[0])}, boolT}
	case "forallkey", "forallkeyold", "forallkeyentry":
		// forallkey(k, m, body): for every key k present in map m (now);
		// forallkeyold: present when the function was entered; forallkeyentry: present when the loop was entered
		id := n.Args[0].(*ast.Ident).Name
		m := e.evalSpec(env, n.Args[1])
		mt := m.t.Underlying().(*types.Map)
		e.symN++
		var kv Value
		for _, sl := range e.layout(mt.Key()) {
			kv = append(kv, Sym(fmt.Sprintf("bv.%s%s#%d", id, sl.Suffix, e.symN), sl.Sort))
		}
		sub := *env
		sub.vars = map[string]specVal{}
		for k, v := range env.vars {
			sub.vars[k] = v
		}
		sub.vars[id] = specVal{kv, mt.Key()}
		sub.quant = true
		body := e.evalSpec(&sub, n.Args[2])
		addr := append([]*Term{m.v[0]}, kv...)
		domHeap := env.heap
		switch name {
		case "forallkeyold":
			if !env.hasOld {
				e.specFail(n, "forallkeyold outside a postcondition / loop invariant")
			}
			domHeap = env.oldHeap
		case "forallkeyentry":
			if env.entryEnv == nil {
				e.specFail(n, "forallkeyentry outside a loop invariant")
			}
			domHeap = env.entryEnv.heap
		}
		has := And(Ne(m.v[0], Zero), env.s.selectIn(domHeap, "mapdom("+e.typeKey(mt)+")", SBool, addr))
		r := Implies(has, body.v[0])
		for i := len(kv) - 1; i >= 0; i-- {
			r = Forall(kv[i], r)
		}
		return specVal{Value{r}, boolT}
	case "isnode":
		// isnode(x, rule): x is a non-nil parse-tree node produced by grammar rule `rule`
		a := e.evalSpec(env, n.Args[0])
		rule := n.Args[1].(*ast.Ident).Name
		if _, isIface := a.t.Underlying().(*types.Interface); !isIface {
			return specVal{Value{Ne(a.v[0], Zero)}, boolT}
		}
		return specVal{Value{And(Eq(a.v[0], e.ruleNodeTag(rule, a.v[1])), Ne(a.v[1], Zero), Le(Zero, App("acc.depth", SInt, a.v[1])))}, boolT}
	case "child":
		// child(ctx, rule): the single child node of grammar rule `rule` of the node ctx - the same term the
		// accessor contract of ctx.<Rule>() uses (nil when the optional child is absent)
		a := e.evalSpec(env, n.Args[0])
		tn := grammarCtxName(a.t)
		if _, ok := e.tree.ctxs[tn]; !ok && strings.HasPrefix(tn, "I") {
			tn = tn[1:]
		}
		cs := e.tree.ctxs[tn]
		elem := n.Args[1].(*ast.Ident).Name
		if cs == nil {
			e.specFail(n, "child: not a grammar context: "+a.t.String())
		}
		if c, ok := cs.counts[elem]; !ok || c.many {
			e.specFail(n, "child: "+tn+" has no single element "+elem)
		}
		ctxv := a.v[len(a.v)-1]
		node := App("acc."+cs.typeName+"."+elem, SInt, ctxv)
		pres := e.tree.present(cs, elem, ctxv)
		return specVal{Value{Ite(pres, node, Zero)}, e.ptrTo(grammarPkg, exportName(elem)+"Context")}
	case "nall":
		// nall(ctx, elem): the number of children of grammar element `elem` the node ctx has, i.e.
		// len(ctx.All<Elem>()) - the same term the accessor contract of All<Elem>() uses
		a := e.evalSpec(env, n.Args[0])
		tn := grammarCtxName(a.t)
		if _, ok := e.tree.ctxs[tn]; !ok && strings.HasPrefix(tn, "I") {
			tn = tn[1:] // interface I<Rule>Context
		}
		cs := e.tree.ctxs[tn]
		elem := n.Args[1].(*ast.Ident).Name
		if cs == nil {
			e.specFail(n, "nall: not a grammar context: "+a.t.String())
		}
		if _, ok := cs.counts[elem]; !ok {
			e.specFail(n, "nall: "+tn+" has no element "+elem)
		}
		cnt := App("acc.len."+cs.typeName+"."+elem, SInt, a.v[len(a.v)-1])
		return specVal{Value{cnt}, intT}
	case "rank":
		a := e.evalSpec(env, n.Args[0])
		return specVal{Value{App("old.ghost.rank", SInt, a.v[len(a.v)-1])}, intT}
	case "themodel":
		t := types.NewPointer(e.namedType(repoMod+"/internal/model", "BinaryModel"))
		return specVal{Value{Sym("in.ghost.themodel", SInt)}, t}
	case "depth":
		a := e.evalSpec(env, n.Args[0])
		return specVal{Value{App("acc.depth", SInt, a.v[len(a.v)-1])}, intT}
	case "istermnode":
		a := e.evalSpec(env, n.Args[0])
		return specVal{Value{And(Eq(a.v[0], e.tokenNodeTag()), Ne(a.v[1], Zero))}, boolT}
	case "istoken":
		a := e.evalSpec(env, n.Args[0])
		return specVal{Value{And(Eq(a.v[0], e.tokenTag()), Ne(a.v[1], Zero))}, boolT}
	}
	if pd, ok := e.contracts.preds[name]; ok {
		sub := &specEnv{vars: map[string]specVal{}, heap: env.heap, oldHeap: env.oldHeap, hasOld: env.hasOld, pkg: pd.pkg, s: env.s, wm: env.wm, wmpost: env.wmpost, quant: env.quant}
		for i, p := range pd.params {
			sub.vars[p] = e.evalSpec(env, n.Args[i])
		}
		return e.evalSpec(sub, pd.body.ast)
	}
	e.specFail(n, "unknown spec function "+name)
	return specVal{}
}

func Forall(bv, body *Term) *Term {
	if body == True {
		return True
	}
	return op("forall", SBool, bv, body)
}

// ---------------------------------------------------------------- applying a callee contract

func (e *Engine) applyContract(s *State, x ssa.CallInstruction, fn *ssa.Function, ct *Contract, args []Value) {
	caller := s.top()
	// pseudo-frame for evaluation of the callee's spec
	pf := &Frame{fn: fn, regs: map[ssa.Value]Value{}, params: args, oldHeap: s.heap.clone()}
	calleeB := e.cfg.PhaseB(fn)
	for i, p := range fn.Params {
		if i >= len(args) {
			break
		}
		g := e.implicitRequires(s, calleeB, p.Type(), args[i])
		if g == True {
			continue
		}
		name := fmt.Sprintf("%s#PRE:%s:nonnil:%s", e.siteName("CALL", x, ""), e.shortFunc(fn), p.Name())
		if caller.chain != "" {
			name = caller.chain + "/" + name
		}
		e.oblige(s, "PRE", name, "uniform precondition: "+p.Name()+" != nil", x.Pos(), g)
	}
	for i, r := range ct.requires {
		g := e.evalSpecBool(s, pf, r, nil)
		name := fmt.Sprintf("%s#PRE:%s:%d", e.siteName("CALL", x, ""), e.shortFunc(fn), i)
		if caller.chain != "" {
			name = caller.chain + "/" + name
		}
		e.oblige(s, "PRE", name, "requires "+r.text, x.Pos(), g)
	}
	if e.reaches(fn, e.curEntry) {
		// call inside a recursion cycle: the callee's measure is below the measure of the function
		// under verification at its entry
		ect := e.contracts.lookup(e, e.curEntry)
		name := fmt.Sprintf("%s#TERM:%s", e.siteName("CALL", x, ""), e.shortFunc(fn))
		if caller.chain != "" {
			name = caller.chain + "/" + name
		}
		if ct.termAssumed != "" && ect != nil && ect.termAssumed != "" {
			e.assumed["termination of "+e.shortFunc(fn)+" assumed: "+ct.termAssumed] = true
		} else if ct.decreases == nil || ect == nil || ect.decreases == nil {
			e.oblige(s, "TERM", name, "recursive call cycle without a decreases clause", x.Pos(), False)
		} else {
			entry := s.frames[0]
			mo := e.evalSpecInt(s, &Frame{fn: entry.fn, regs: entry.regs, params: entry.params, oldHeap: entry.oldHeap}, ect.decreases, true)
			mi := e.evalSpecInt(s, pf, ct.decreases, false)
			e.oblige(s, "TERM", name, "decreases "+ct.decreases.text, x.Pos(), And(Le(Zero, mo), Lt(mi, mo)))
		}
	} else if ct.decreases != nil {
		// recursive call: the measure decreases w.r.t. the enclosing activation of the same function
		for i := len(s.frames) - 1; i >= 0; i-- {
			if s.frames[i].fn == fn {
				outer := s.frames[i]
				mo := e.evalSpecInt(s, &Frame{fn: fn, regs: outer.regs, params: outer.params, oldHeap: outer.oldHeap}, ct.decreases, true)
				mi := e.evalSpecInt(s, pf, ct.decreases, false)
				name := fmt.Sprintf("%s#TERM:%s", e.siteName("CALL", x, ""), e.shortFunc(fn))
				if caller.chain != "" {
					name = caller.chain + "/" + name
				}
				e.oblige(s, "TERM", name, "decreases "+ct.decreases.text, x.Pos(), And(Le(Zero, mo), Lt(mi, mo)))
				break
			}
		}
	}
	// havoc what the callee may write
	var fams []string
	if ct.hasModifies {
		fams = ct.modifiesFams
	} else {
		for f := range e.funcWrites(fn) {
			fams = append(fams, f)
		}
	}
	preHeap := s.heap.clone()
	e.pendingPre = &preHeap
	if len(fams) > 0 && !(ct.framed && len(ct.frameExcept) == 0) && s.currentMapLoop() != nil {
		e.detOblige(s, x, "callee-effects", func(ren, memo map[*Term]*Term) *Term { return False })
	}
	ver := e.nextVer()
	var wm, wmpost *Term
	if ct.framed {
		// callee writes only objects it allocates itself (plus the listed exceptions): framed havoc
		var except []frameExc
		for _, ex := range ct.frameExcept {
			env := e.envForFrame(s, pf, nil)
			env.pkg = ex.pkg
			except = append(except, e.evalFrameExc(env, ex))
		}
		wm = Sym(e.freshName("wm"), SInt)
		wmpost = Sym(e.freshName("wmpost"), SInt)
		if *s.nalloc > int(initAllocBoundary) {
			s.assume(Le(Alloc(*s.nalloc-1), wm))
		}
		if n := len(s.marks); n > 0 {
			s.assume(Le(s.marks[n-1].wmpost, wm))
		}
		s.assume(Le(Sym("ALLOC0", SInt), wm))
		s.assume(Le(wm, wmpost))
		prev := s.heap.clone()
		for _, f := range fams {
			s.havocFamilyFramed(f, ver, wm, except, prev)
		}
		s.marks = append(s.marks, callMark{nAtCall: *s.nalloc, wm: wm, wmpost: wmpost})
	} else {
		for _, f := range fams {
			if f == "strings.Builder" || f == "bytes.Buffer" {
				// builders reachable by the callee: only those passed in; local builders of the caller are untouched
				continue
			}
			s.havocFamily(f, ver)
		}
	}
	res := e.havocResultNamed(s, x, "ret."+e.shortFunc(fn))
	e.bindResult(s, x, res)
	e.recordCall(s, fn, args, res)
	if wmpost != nil {
		// everything the callee returns exists by the time it returns
		rs := fn.Signature.Results()
		off := 0
		for i := 0; i < rs.Len(); i++ {
			n := len(e.layout(rs.At(i).Type()))
			sub := res[off : off+n]
			off += n
			switch rs.At(i).Type().Underlying().(type) {
			case *types.Pointer, *types.Map, *types.Slice:
				s.assume(Le(sub[0], wmpost))
			case *types.Interface:
				s.assume(Le(sub[1], wmpost))
			}
		}
	}
	if len(ct.ensures) > 0 {
		extra := e.resultBindings(fn, res)
		post := &Frame{fn: fn, regs: map[ssa.Value]Value{}, params: args, oldHeap: pf.oldHeap, wm: wm, wmpost: wmpost}
		for _, en := range ct.ensures {
			if en.traceOnly {
				continue
			}
			s.assume(e.evalSpecBool(s, post, en, extra))
		}
	}
}

// evalFrameExc: `field(obj, Name)` = the field slots of one object; `object(x)` / plain expression = the
// whole object x refers to (struct behind a pointer, map contents).
func (e *Engine) evalFrameExc(env *specEnv, ex *specExpr) frameExc {
	if call, ok := ex.ast.(*ast.CallExpr); ok {
		if id, ok := call.Fun.(*ast.Ident); ok {
			switch id.Name {
			case "field":
				v := e.evalSpec(env, call.Args[0])
				pt := v.t.Underlying().(*types.Pointer).Elem()
				return frameExc{v.v[0], e.typeKey(pt) + "." + call.Args[1].(*ast.Ident).Name}
			case "object":
				v := e.evalSpec(env, call.Args[0])
				return e.excFor(v.v[0], v.t)
			}
		}
	}
	v := e.evalSpec(env, ex.ast)
	return e.excFor(v.v[0], v.t)
}

func (e *Engine) evalSpecInt(s *State, f *Frame, x *specExpr, useOld bool) *Term {
	env := e.envForFrame(s, f, nil)
	env.pkg = x.pkg
	if useOld {
		env.heap = f.oldHeap
	}
	r := e.evalSpec(env, x.ast)
	return r.v[0]
}

func (e *Engine) havocResultNamed(s *State, x ssa.CallInstruction, base string) Value {
	sig := x.Common().Signature()
	res := sig.Results()
	var out Value
	for i := 0; i < res.Len(); i++ {
		out = append(out, e.freshValue(s, res.At(i).Type(), e.freshName(fmt.Sprintf("%s.r%d", base, i)))...)
	}
	return out
}

func (e *Engine) resultBindings(fn *ssa.Function, res Value) map[string]specVal {
	out := map[string]specVal{}
	rs := fn.Signature.Results()
	off := 0
	for i := 0; i < rs.Len(); i++ {
		n := len(e.layout(rs.At(i).Type()))
		sv := specVal{res[off : off+n], rs.At(i).Type()}
		out[fmt.Sprintf("result%d", i)] = sv
		if i == 0 {
			out["result"] = sv
		}
		if rs.At(i).Name() != "" {
			out[rs.At(i).Name()] = sv
		}
		off += n
	}
	return out
}

// checkPost: postconditions of the entry function at a return point.
func (e *Engine) checkPost(s *State, f *Frame, ct *Contract, rets []Value, pos token.Pos) {
	var flat Value
	for _, r := range rets {
		flat = append(flat, r...)
	}
	extra := e.resultBindings(f.fn, flat)
	for i, en := range ct.ensures {
		g := e.evalSpecBool(s, f, en, extra)
		label := en.label
		if label == "" {
			label = strconv.Itoa(i)
		}
		name := fmt.Sprintf("%s#POST:%s", e.shortFunc(f.fn), label)
		e.oblige(s, "POST", name, "ensures "+en.text, pos, g)
	}
}

// ---------------------------------------------------------------- type invariants (generator phase)

func (e *Engine) assumeTypeInv(s *State, t types.Type, v Value, pl Place) {
	if e.contracts == nil {
		return
	}
	switch u := t.Underlying().(type) {
	case *types.Interface:
		// interface holding a pointer to a repo type: invariants of the possible dynamic types
		if v[0].K == KInt && v[0].I != 0 {
			dt := e.typeByID[v[0].I]
			if isPointerShaped(dt) {
				e.assumeTypeInv(s, dt, Value{v[1]}, Place{})
			}
		}
		if ti := e.contracts.invs[e.typeKey(t)]; ti != nil {
			e.assumeInvExprs(s, ti, t, v)
		}
		return
	case *types.Slice:
		_ = u
		if ti := e.contracts.invs[e.typeKey(t)]; ti != nil {
			e.assumeInvExprs(s, ti, t, v)
		}
		return
	}
	ti := e.contracts.invs[e.typeKey(t)]
	if ti == nil {
		// struct values: invariants of their pointer / interface fields are assumed when those are loaded
		return
	}
	e.assumeInvExprs(s, ti, t, v)
}

func (e *Engine) assumeInvExprs(s *State, ti *typeInv, t types.Type, v Value) {
	if isOldOrUnknown(v) {
		for _, x := range ti.exprs {
			env := &specEnv{vars: map[string]specVal{"self": {v, t}}, heap: s.heap, pkg: x.pkg, s: s}
			c := e.evalSpec(env, x.ast).v[0]
			if _, isPtr := t.Underlying().(*types.Pointer); isPtr {
				c = Implies(Ne(v[0], Zero), c)
			}
			s.assume(c)
		}
	}
}

func isOldOrUnknown(v Value) bool {
	// fresh objects are under construction, and references of unknown provenance (callee results,
	// loop-havocked variables) may be fresh: their invariants are not assumed
	if len(v) == 0 {
		return true
	}
	if isFreshRef(v[0]) {
		return false
	}
	if v[0].K == KSym && (strings.HasPrefix(v[0].Name, "ret.") || strings.HasPrefix(v[0].Name, "hv.") || strings.HasPrefix(v[0].Name, "ext.")) {
		return false
	}
	return true
}

// evalTraceSpec: queries over the ghost effect trace of the current path.
//
//	nstdout(), stdoutline(i)                         lines written to standard output
//	nfs(), fskind(i), fspath(i), fsdata(i)           file-system effects (writefile/create/filewrite/mkdir)
//	ncalls("f"), callarg("f", k, i), callres("f", k, i)   calls made through a contract or to an external
//	called("f", a0, a1, ...)                         some call of f had exactly these leading (flattened) arguments
//	exitcode()                                       status passed to os.Exit (exits clauses)
func (e *Engine) evalTraceSpec(env *specEnv, name string, n *ast.CallExpr) specVal {
	intT := types.Typ[types.Int]
	strT := types.Typ[types.String]
	boolT := types.Typ[types.Bool]
	tr := env.s.trace
	if env.iterFrom > 0 && env.iterFrom <= len(tr) {
		tr = tr[env.iterFrom:]
	}
	var std, fs []Event
	for _, ev := range tr {
		switch ev.Kind {
		case "stdout":
			std = append(std, ev)
		case "writefile", "create", "filewrite", "mkdir":
			fs = append(fs, ev)
		}
	}
	constInt := func(x ast.Expr) int {
		v := e.evalSpec(env, x)
		if v.v[0].K != KInt {
			e.specFail(n, "trace index must be a constant")
		}
		return int(v.v[0].I)
	}
	fname := func(x ast.Expr) string {
		lit, ok := x.(*ast.BasicLit)
		if !ok {
			e.specFail(n, "function name must be a string literal")
		}
		sv, _ := strconv.Unquote(lit.Value)
		return sv
	}
	calls := func(f string) []Event {
		var out []Event
		for _, ev := range tr {
			if ev.Kind == "call" && (ev.Note == f || strings.HasSuffix(ev.Note, f)) {
				out = append(out, ev)
			}
		}
		return out
	}
	switch name {
	case "nstdout":
		return specVal{Value{Int(int64(len(std)))}, intT}
	case "nfs":
		return specVal{Value{Int(int64(len(fs)))}, intT}
	case "stdoutline":
		i := constInt(n.Args[0])
		if i >= len(std) {
			return specVal{Value{App("trace.nostdout", SStr)}, strT}
		}
		return specVal{Value{std[i].Args[0]}, strT}
	case "fskind":
		i := constInt(n.Args[0])
		if i >= len(fs) {
			return specVal{Value{Str("<none>")}, strT}
		}
		return specVal{Value{Str(fs[i].Kind)}, strT}
	case "fspath":
		i := constInt(n.Args[0])
		if i >= len(fs) {
			return specVal{Value{App("trace.nofs", SStr)}, strT}
		}
		return specVal{Value{fs[i].Args[0]}, strT}
	case "fsdata":
		i := constInt(n.Args[0])
		if i >= len(fs) || len(fs[i].Args) < 2 {
			return specVal{Value{App("trace.nofsdata", SStr)}, strT}
		}
		return specVal{Value{fs[i].Args[1]}, strT}
	case "ncalls":
		return specVal{Value{Int(int64(len(calls(fname(n.Args[0])))))}, intT}
	case "callarg", "callres":
		cs := calls(fname(n.Args[0]))
		k, i := constInt(n.Args[1]), constInt(n.Args[2])
		if k >= len(cs) {
			return specVal{Value{App("trace.nocall."+fname(n.Args[0]), SInt)}, intT}
		}
		src := cs[k].Args
		if name == "callres" {
			src = cs[k].Res
		}
		if i >= len(src) {
			e.specFail(n, "call event has no such slot")
		}
		t := src[i]
		switch t.S {
		case SStr:
			return specVal{Value{t}, strT}
		case SBool:
			return specVal{Value{t}, boolT}
		}
		return specVal{Value{t}, intT}
	case "called", "calledat":
		cs := calls(fname(n.Args[0]))
		var want []*Term
		rest := n.Args[1:]
		skip := 0
		if name == "calledat" {
			skip = constInt(n.Args[1])
			rest = n.Args[2:]
		}
		for _, a := range rest {
			want = append(want, e.evalSpec(env, a).v...)
		}
		for i := range cs {
			if len(cs[i].Args) >= skip {
				c := cs[i]
				c.Args = c.Args[skip:]
				cs[i] = c
			}
		}
		var ds []*Term
		for _, c := range cs {
			if len(c.Args) < len(want) {
				continue
			}
			var eqs []*Term
			for i, w := range want {
				if c.Args[i].S != w.S {
					eqs = append(eqs, False)
					continue
				}
				eqs = append(eqs, Eq(c.Args[i], w))
			}
			ds = append(ds, And(eqs...))
		}
		return specVal{Value{Or(ds...)}, boolT}
	case "exitcode":
		for i := len(tr) - 1; i >= 0; i-- {
			if tr[i].Kind == "exit" {
				return specVal{Value{tr[i].Args[0]}, intT}
			}
		}
		return specVal{Value{Int(-1)}, intT}
	}
	e.specFail(n, "unknown trace function")
	return specVal{}
}

// vKey: the name of a spec variable's first slot when it is a symbol (bound variables are called bv.*).
func vKey(v specVal) string {
	if len(v.v) > 0 && v.v[0] != nil && v.v[0].K == KSym {
		return v.v[0].Name
	}
	return ""
}
