package main

// DET obligations (property C13): output must not depend on map iteration order or on
// impure sources.
//
// For every `range` over a map the loop body is executed once for an arbitrary key k (as for
// every other loop). Each effect of that iteration which is visible outside the iteration gets an
// obligation that it commutes with the same effect of an iteration for any other key k':
//   - update m[K(k)] = V(k) of a map that existed before the iteration:  K(k) != K(k')  or  V(k) == V(k')
//   - append of S(k) to a builder that existed before the iteration:       S(k) == S(k')  (no order-sensitive text)
//   - store of V(k) into an object that existed before the iteration:      V(k) == V(k')
//   - file-system effect on path P(k):                                     P(k) != P(k')
//   - a loop-carried variable: its update must be order-independent; the one accepted idiom for
//     slices is "collect keys, then sort.Strings before any other use".
// k' is a renamed copy of the iteration's key/value symbols; the iteration's path condition is
// available in both copies. Impure calls (time.Now, rand, os.Getenv, ...) get an obligation `false`.

import (
	"fmt"
	"go/types"
	"os"
	"regexp"
	"strconv"
	"strings"

	"golang.org/x/tools/go/ssa"
)

type mapLoopInfo struct {
	lp      *loop
	keySyms []*Term // symbols introduced by Next for this iteration (key and value slots, ok)
	nAlloc  int     // allocations made before the iteration started
	pcAt    int     // length of the path condition when the iteration started
	symAt   int     // symbol counter when the iteration started: later symbols are iteration-local
}

var reSymNum = regexp.MustCompile(`#(\d+)`)

// primeLeaves completes the renaming `m` for every iteration-local leaf of t: symbols numbered after
// the iteration started and objects allocated during the iteration.
func primeLeaves(t *Term, ml *mapLoopInfo, m map[*Term]*Term) {
	t.walk(func(x *Term) {
		if _, ok := m[x]; ok {
			return
		}
		switch x.K {
		case KSym:
			if strings.HasPrefix(x.Name, "bv.") {
				return
			}
			for _, mm := range reSymNum.FindAllStringSubmatch(x.Name, -1) {
				if n, err := strconv.Atoi(mm[1]); err == nil && n > ml.symAt {
					m[x] = Sym(x.Name+"'", x.S)
					return
				}
			}
		case KAlloc:
			if int(x.I) >= ml.nAlloc {
				m[x] = Sym(fmt.Sprintf("new#%d'", x.I), SInt)
			}
		}
	})
}

func subst(t *Term, m map[*Term]*Term, memo map[*Term]*Term) *Term {
	if r, ok := m[t]; ok {
		return r
	}
	if len(t.Args) == 0 {
		return t
	}
	if r, ok := memo[t]; ok {
		return r
	}
	args := make([]*Term, len(t.Args))
	changed := false
	for i, a := range t.Args {
		args[i] = subst(a, m, memo)
		if args[i] != a {
			changed = true
		}
	}
	r := t
	if changed {
		r = rebuild(t, args)
	}
	memo[t] = r
	return r
}

func rebuild(t *Term, args []*Term) *Term {
	if t.K == KApp {
		return App(t.Name, t.S, args...)
	}
	switch t.Name {
	case "not":
		return Not(args[0])
	case "and":
		return And(args...)
	case "or":
		return Or(args...)
	case "ite":
		return Ite(args[0], args[1], args[2])
	case "=":
		return Eq(args[0], args[1])
	case "add":
		return Add(args[0], args[1])
	case "sub":
		return Sub(args[0], args[1])
	case "mul":
		return Mul(args[0], args[1])
	case "<":
		return Lt(args[0], args[1])
	case "<=":
		return Le(args[0], args[1])
	case "concat":
		return Concat(args...)
	}
	return op(t.Name, t.S, args...)
}

func mentionsAny(t *Term, syms map[*Term]bool) bool {
	found := false
	t.walk(func(x *Term) {
		if syms[x] {
			found = true
		}
	})
	return found
}

// currentMapLoop: the innermost map-range iteration the top frame is executing.
func (s *State) currentMapLoop() *mapLoopInfo {
	f := s.top()
	for i := len(f.mapLoops) - 1; i >= 0; i-- {
		ml := f.mapLoops[i]
		if ml.lp.body[f.block] {
			return ml
		}
	}
	return nil
}

func (e *Engine) detEnabled() bool {
	return e.cfg.Kinds == nil || e.cfg.Kinds["DET"]
}

// detPrimed builds, for the current iteration, the renaming k -> k' and the assumptions of the
// other iteration (renamed copies of the path-condition conjuncts that mention the key symbols).
func (e *Engine) detPrimed(s *State, ml *mapLoopInfo) (map[*Term]*Term, []*Term) {
	ren := map[*Term]*Term{}
	syms := map[*Term]bool{}
	for _, k := range ml.keySyms {
		ren[k] = Sym(k.Name+"'", k.S)
		syms[k] = true
	}
	// every symbol created during the iteration that depends on the key is iteration-local as well:
	// callee results etc. are renamed too
	memo := map[*Term]*Term{}
	var extra []*Term
	for _, c := range s.pc[ml.pcAt:] {
		primeLeaves(c, ml, ren)
	}
	for _, c := range s.pc[ml.pcAt:] {
		extra = append(extra, subst(c, ren, memo))
	}
	// the two iterations are for different keys
	var diff []*Term
	for _, k := range ml.keySyms {
		if strings.Contains(k.Name, ".key") {
			diff = append(diff, Ne(k, ren[k]))
		}
	}
	extra = append(extra, Or(diff...))
	return ren, extra
}

func (e *Engine) detOblige(s *State, in ssa.Instruction, what string, goalOf func(ren map[*Term]*Term, memo map[*Term]*Term) *Term) {
	if !e.detEnabled() {
		return
	}
	ml := s.currentMapLoop()
	if ml == nil {
		return
	}
	ren, extra := e.detPrimed(s, ml)
	memo := map[*Term]*Term{}
	e.detCur = ml
	goal := goalOf(ren, memo)
	if os.Getenv("GOVERIF_DEBUG_DET") != "" {
		fmt.Fprintf(os.Stderr, "DET %s goal=%s\n  keysyms=%v ren=%v\n", what, goal, ml.keySyms, ren)
	}
	name := e.siteName("DET", in, what)
	if ch := s.top().chain; ch != "" {
		name = ch + "/" + name
	}
	// obligation under the assumptions of both iterations
	t := s.fork()
	for _, c := range extra {
		t.assume(c)
	}
	if t.dead {
		return
	}
	saved := e.cfg.Kinds
	e.obligeIn(t, "DET", name, "map iteration order: "+what, in.Pos(), goal)
	e.cfg.Kinds = saved
}

// obligeIn records an obligation in state t without assuming it in the running state.
func (e *Engine) obligeIn(t *State, kind, name, desc string, pos interface{ IsValid() bool }, goal *Term) {
	e.oblige(t, kind, name, desc, 0, goal)
}

func existedBeforeIteration(a *Term, ml *mapLoopInfo) *Term {
	switch {
	case a.K == KAlloc:
		return Bool(int(a.I) < ml.nAlloc)
	case a.isOp("ite"):
		return Ite(a.Args[0], existedBeforeIteration(a.Args[1], ml), existedBeforeIteration(a.Args[2], ml))
	}
	return True // unknown provenance: conservatively shared
}

// detMapUpdate: m[k] = v inside a map-range iteration.
func (e *Engine) detMapUpdate(s *State, in ssa.Instruction, m *Term, k, v Value) {
	ml := s.currentMapLoop()
	if ml == nil || !e.detEnabled() {
		return
	}
	if existedBeforeIteration(m, ml) == False {
		return
	}
	e.detOblige(s, in, "mapupdate", func(ren, memo map[*Term]*Term) *Term {
		var keq, veq []*Term
		for _, x := range k {
			keq = append(keq, Eq(x, substP(e, x, ren, memo)))
		}
		for _, x := range v {
			veq = append(veq, Eq(x, substP(e, x, ren, memo)))
		}
		return Or(Not(And(keq...)), And(veq...))
	})
}

// detStore: *p = v inside a map-range iteration.
func (e *Engine) detStore(s *State, in ssa.Instruction, pl Place, v Value) {
	ml := s.currentMapLoop()
	if ml == nil || !e.detEnabled() || len(pl.Addr) == 0 {
		return
	}
	if existedBeforeIteration(pl.Addr[0], ml) == False {
		return
	}
	e.detOblige(s, in, "store", func(ren, memo map[*Term]*Term) *Term {
		var aeq, veq []*Term
		for _, x := range pl.Addr {
			aeq = append(aeq, Eq(x, substP(e, x, ren, memo)))
		}
		for _, x := range v {
			veq = append(veq, Eq(x, substP(e, x, ren, memo)))
		}
		return Or(Not(And(aeq...)), And(veq...))
	})
}

// detAppend: text appended to a builder that outlives the iteration.
func (e *Engine) detAppend(s *State, in ssa.Instruction, builder *Term, text *Term) {
	ml := s.currentMapLoop()
	if ml == nil || !e.detEnabled() {
		return
	}
	if existedBeforeIteration(builder, ml) == False {
		return
	}
	if os.Getenv("GOVERIF_DEBUG_DET") != "" {
		fmt.Fprintf(os.Stderr, "DET append text=%s\n", text)
	}
	e.detOblige(s, in, "append", func(ren, memo map[*Term]*Term) *Term {
		// two iterations append S(k) and S(k') in either order: equal results iff the texts are equal
		return Eq(text, substP(e, text, ren, memo))
	})
}

// detFS: file-system effect on a path.
func (e *Engine) detFS(s *State, in ssa.Instruction, kind string, path *Term) {
	ml := s.currentMapLoop()
	if ml == nil || !e.detEnabled() {
		return
	}
	if kind == "mkdir" {
		return // MkdirAll is idempotent and commutes with itself
	}
	e.detOblige(s, in, "fs:"+kind, func(ren, memo map[*Term]*Term) *Term {
		return Ne(path, substP(e, path, ren, memo))
	})
}

// detImpure: a call to an impure source.
func (e *Engine) detImpure(s *State, in ssa.Instruction, what string) {
	if !e.detEnabled() {
		return
	}
	name := e.siteName("DET", in, "impure")
	if ch := s.top().chain; ch != "" {
		name = ch + "/" + name
	}
	t := s.fork()
	e.oblige(t, "DET", name, "impure source "+what, in.Pos(), False)
}

// detLoopCarried: at the back edge of a map-range loop every loop-carried variable must have been
// updated in an order-independent way.
func (e *Engine) detLoopCarried(s *State, f *Frame, lp *loop, from *ssa.BasicBlock) {
	if !e.detEnabled() {
		return
	}
	var ml *mapLoopInfo
	for _, m := range f.mapLoops {
		if m.lp == lp {
			ml = m
		}
	}
	if ml == nil {
		return
	}
	le := f.loops[lp.header]
	for _, in := range lp.header.Instrs {
		p, ok := in.(*ssa.Phi)
		if !ok {
			break
		}
		var nv Value
		for i, pred := range lp.header.Preds {
			if pred == from {
				nv = e.get(s, p.Edges[i])
			}
		}
		old := le.phis[p]
		same := true
		for i := range nv {
			if nv[i] != old[i] {
				same = false
			}
		}
		if same {
			continue
		}
		name := fmt.Sprintf("%s#DET:loopvar:%s", e.loopKey(f.fn, lp), phiName(p))
		if f.chain != "" {
			name = f.chain + "/" + name
		}
		// accepted idiom: a slice that is only appended to and sorted right after the loop
		if _, isSlice := p.Type().Underlying().(*types.Slice); isSlice && e.sortedAfterLoop(lp, p) {
			e.assumed["sort.Strings applied to the keys collected from a map yields an order that depends on the key set only"] = true
			t := s.fork()
			e.oblige(t, "DET", name, "loop-carried slice is sorted before use", p.Pos(), True)
			continue
		}
		// commutative scalar update: T(T(p,k),k') == T(T(p,k'),k)
		ren, extra := e.detPrimed(s, ml)
		memo := map[*Term]*Term{}
		t := s.fork()
		for _, c := range extra {
			t.assume(c)
		}
		var eqs []*Term
		for i := range nv {
			// T(p,k) = nv[i]; T(T(p,k),k') = nv[i][k->k'][p->nv[i]] and symmetric
			tk := nv[i]
			tk2 := substP(e, tk, ren, memo)
			ab := subst(tk2, map[*Term]*Term{old[i]: tk}, map[*Term]*Term{})
			ba := subst(tk, map[*Term]*Term{old[i]: tk2}, map[*Term]*Term{})
			eqs = append(eqs, Eq(ab, ba))
		}
		e.oblige(t, "DET", name, "loop-carried variable updated in map order", p.Pos(), And(eqs...))
	}
}

func phiName(p *ssa.Phi) string {
	if p.Comment != "" {
		return p.Comment
	}
	return p.Name()
}

// sortedAfterLoop: every use of the slice phi outside the loop is, first of all, an argument of
// sort.Strings (directly or through the exit value), and inside the loop it is only appended to.
func (e *Engine) sortedAfterLoop(lp *loop, p *ssa.Phi) bool {
	ok := true
	sorted := false
	for _, u := range *p.Referrers() {
		if lp.body[u.Block()] {
			// inside: only append(p, ...)
			c, isCall := u.(*ssa.Call)
			if isCall {
				if b, isB := c.Call.Value.(*ssa.Builtin); isB && b.Name() == "append" && c.Call.Args[0] == ssa.Value(p) {
					continue
				}
			}
			if _, isPhi := u.(*ssa.Phi); isPhi {
				continue
			}
			if _, isDbg := u.(*ssa.DebugRef); isDbg {
				continue
			}
			ok = false
			continue
		}
		// outside the loop: the first instruction using it in its block must be sort.Strings(p)
		if _, isDbg := u.(*ssa.DebugRef); isDbg {
			continue
		}
		c, isCall := u.(*ssa.Call)
		if isCall {
			if fn := c.Call.StaticCallee(); fn != nil && fn.String() == "sort.Strings" {
				sorted = true
				continue
			}
		}
		// other uses are fine only if they come after the sort in the same block
		if !sorted || !usedAfterSort(u, p) {
			ok = false
		}
	}
	return ok && sorted
}

func usedAfterSort(u ssa.Instruction, p *ssa.Phi) bool {
	seenSort := false
	for _, in := range u.Block().Instrs {
		if c, ok := in.(*ssa.Call); ok {
			if fn := c.Call.StaticCallee(); fn != nil && fn.String() == "sort.Strings" && len(c.Call.Args) == 1 && c.Call.Args[0] == ssa.Value(p) {
				seenSort = true
			}
		}
		if in == u {
			return seenSort
		}
	}
	// use in a later block dominated by the sort block
	for _, r := range *p.Referrers() {
		if c, ok := r.(*ssa.Call); ok {
			if fn := c.Call.StaticCallee(); fn != nil && fn.String() == "sort.Strings" && c.Block().Dominates(u.Block()) {
				return true
			}
		}
	}
	return false
}

func substP(e *Engine, t *Term, ren map[*Term]*Term, memo map[*Term]*Term) *Term {
	if e.detCur != nil {
		before := len(ren)
		primeLeaves(t, e.detCur, ren)
		if len(ren) != before {
			for k := range memo {
				delete(memo, k)
			}
		}
	}
	return subst(t, ren, memo)
}
