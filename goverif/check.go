package main

// goverif check <property>: generate the property's obligations from /repo's current tree,
// discharge them, compare with the committed ledger / known findings, write evidence.

import (
	"encoding/json"
	"flag"
	"fmt"
	"os"
	"path/filepath"
	"regexp"
	"sort"
	"strconv"
	"strings"
	"time"

	"golang.org/x/tools/go/ssa"
)

var verifRoot = "/verif"

// outRoot: where evidence and replay files are written (GOVERIF_OUT, default /verif); used to try
// seeded changes in scratch worktrees without touching /verif.
var outRoot = envOr("GOVERIF_OUT", "/verif")

type PropSpec struct {
	ID         string
	Kinds      []string                 // obligation kinds generated
	FuncMatch  *regexp.Regexp           // entry functions
	Own        func(o *Obligation) bool // obligations that belong to this property
	PhaseBOnly bool
	Note       string
	Decided    []string
	OutOfReach []string
	Bounded    []string
	Standin    []string                      // classes of the bounded formatter stand-in owned by this property
	Extra      func(e *Engine) []*Obligation // further obligations decided outside the path executor (ALIAS, READS)
	Pairs      bool                          // bounded stand-in: pairs of equivalent spellings (C08)
	Crash      bool                          // bounded stand-in: crash corpus through the real entry points (C11)
	Faults     bool                          // bounded stand-in: fault injection corpus (C12)
}

type KnownFinding struct {
	Property   string `json:"property"`
	Obligation string `json:"obligation"`
	What       string `json:"what"`
	Witness    string `json:"witness_input,omitempty"`
	Status     string `json:"status"` // open | fixed
	Commit     string `json:"commit,omitempty"`
}

type Ledger struct {
	Property    string            `json:"property"`
	Obligations map[string]string `json:"obligations"` // name -> proved | known-finding | undecided
	Functions   map[string]string `json:"functions"`   // entry function -> ok | out-of-subset
}

func loadKnownFindings() []KnownFinding {
	var kf []KnownFinding
	b, err := os.ReadFile(filepath.Join(verifRoot, "known_findings.json"))
	if err != nil {
		return nil
	}
	if err := json.Unmarshal(b, &kf); err != nil {
		fmt.Fprintln(os.Stderr, "known_findings.json:", err)
		os.Exit(2)
	}
	return kf
}

func loadLedger(prop string) *Ledger {
	l := &Ledger{Property: prop, Obligations: map[string]string{}, Functions: map[string]string{}}
	b, err := os.ReadFile(filepath.Join(verifRoot, "ledger", prop+".json"))
	if err != nil {
		return l
	}
	json.Unmarshal(b, l)
	return l
}

func propSpecs() map[string]*PropSpec {
	all := regexp.MustCompile(`.`)
	label := func(id string) func(o *Obligation) bool {
		return func(o *Obligation) bool {
			return strings.Contains(o.Name, "["+id+"]") || strings.Contains(o.Desc, "["+id+"]")
		}
	}
	_ = label
	return map[string]*PropSpec{
		"C11": {ID: "C11", Kinds: []string{"SAFE", "TERM", "PRE", "INV", "POST", "FRAME"}, FuncMatch: all, Crash: true,
			Bounded: []string{"BOUNDED complement (not counted among the obligations): a corpus of grammar-derived sentences and fault templates is run through the real FormatPacketDsl, ParseFile and the six generators in a subprocess; any panic, stack overflow or hang is a violation. It probes the boundary the proof assumes (the model invariants the generators rely on are assumed at Compile, see DESIGN section 7)"},
			Own: func(o *Obligation) bool {
				if o.Kind == "FRAME" {
					return !o.PhaseB // frames of the model-building phase support the visitor's invariants; generator frames are C14
				}
				return !strings.Contains(o.Desc, "[C")
			},
			Decided:    []string{"no panic (nil dereference, failed type assertion, index/slice bounds, nil-map write, division, overflow, negative Repeat count, template/regexp Must) in any non-generated function of internal/model, internal/parser, cmd", "termination of every loop and every recursive function (variants)", "supporting preconditions, loop invariants and postconditions the safety proofs rely on", "cycle check, edge coverage: containsCycle marks a packet (of those that existed at entry; the check allocates none) done only when every packet it refers to (object fields, inline or not, and every declared match alternative) is done; a done mark is never taken back; a false result leaves the packet done (pre/postcondition cycleClosed, carried by the driving loop of ResolveDependencies)"},
			OutOfReach: []string{"ANTLR runtime and generated parser (trusted w.r.t. grammar-derived tree contracts)", "cgo boundary, cobra dispatch, OS", "that a closed, fully marked reference graph on which the cycle check met no in-progress packet is acyclic (white-path theorem; needs ghost finishing times) - assumed as the ghost rank of the model invariants"}},
		"C12": {ID: "C12", Faults: true,
			Bounded: []string{"BOUNDED (not counted as proved): every fault class of the property injected at each site of a base program produces a diagnostic carrying the line of the offending declaration, and well-formed programs using every documented construct and option value produce none (real ParseFile)"},
			Kinds:   []string{"POST", "PRE", "SAFE", "INV"}, FuncMatch: regexp.MustCompile(`internal/model\.|PacketDslVisitorImpl|parser\.ParseFile|cmd\.(Compile|Execute|init)`),
			Own: func(o *Obligation) bool { return strings.Contains(o.Name, "C12:") },
			Decided: []string{"D1 AddOption: unknown name / illegal value / duplicate => exactly one (at least one for illegal) new diagnostic carrying the declaration's line, accepted options stored without diagnostic", "D2 AddPacket: duplicate name, second root => one diagnostic with the packet's line and the model unchanged; otherwise stored in map and list, no diagnostic", "D3 AddMetaData: duplicate => one diagnostic with its line; otherwise stored", "D8 Compile: a parse error or any model diagnostic => non-nil error, no file-system effect, WriteCodeToFile never called",
				"D4 length fields occur only in the root packet and only as its length field (VisitPacketDefinition)", "D5 a match key seen earlier in the same match yields a diagnostic (VisitMatchFieldDeclaration)",
				"D6 resolveFields / ResolveDependencies: unless a new diagnostic was added, every object field of every packet refers to a declared packet and every match alternative names a declared packet (top-level fields; set-once history constraint on the reference: resolved at most once); carried by contract through VisitPacket and ParseFile to Compile: a nil result means every generator was handed a model whose top-level references are all resolved", "D9 VisitPacket submits every packet definition: without a new diagnostic the model holds exactly one packet per packetDefinition child of the tree, with pairwise distinct names; AddPacket only appends to the list and never removes a key (D2-frame); every field definition of a packet (VisitPacketDefinition) and of an inline object (VisitInerObjectField) is in the model unless a diagnostic was added",
				"D7 a packet's fields have pairwise distinct names (VisitPacketDefinition)", "line provenance: every diagnostic added by the visitor carries a line >= 1 taken from a token of the offending declaration; the membership test behind illegal option values is exact (contains)"},
			OutOfReach: []string{"text of ANTLR's own syntax messages", "that every option declaration and MetaData entry is submitted to the model (the analogue of D9 for the map-valued tables; no map cardinality in the engine), and references nested in inline objects as seen from the caller (proved inside the recursion of resolveFields only): covered by the fault corpus only", "acyclicity of references: the cycle check is under an edge-coverage contract (C11), the step from a closed marked graph to acyclicity is assumed"}},
		"C16": {ID: "C16", Kinds: []string{"POST", "PRE", "SAFE"}, FuncMatch: regexp.MustCompile(`cmd\.|parser\.(FormatPacketDsl|WriteCodeToFile)$`),
			Own:        func(o *Obligation) bool { return strings.Contains(o.Name, "C16:") },
			Decided:    []string{"format: exactly one call of the formatter on the given text; on a formatter error exit status 1 and no file-system effect; with -f exactly one WriteFile(file, result); without -f exactly one stdout line result+\"\\n\" and no file-system effect", "C export: formatter called on GoString(dsl), returns CString(result) or CString(\"Error:\"+err)", "compile: ParseFile called once on the input; see evidence for the per-target clauses"},
			OutOfReach: []string{"cobra flag parsing and command dispatch, cgo string conversion (trusted library contracts)"}},
		"C08": {ID: "C08", Kinds: []string{"POST", "FRAME", "PRE", "SAFE"}, FuncMatch: regexp.MustCompile(`PacketDslVisitorImpl\)\.(VisitFieldDefinitionWithAttribute|VisitFieldDefinition|VisitMetaField|metaDataDeclarationToField|metaDataDeclarationToMetaData|VisitPacketDefinition)$|model\.NewConfiguration$`),
			Own: func(o *Obligation) bool {
				return strings.Contains(o.Name, "C08:") || o.Kind == "FRAME" && !o.PhaseB
			},
			Extra:   func(e *Engine) []*Obligation { return append(e.aliasObligations(), e.readsObligations()...) },
			Pairs:   true,
			Bounded: []string{"BOUNDED (not counted as proved): for an enumerated set of pairs of texts related by the meaning-preserving rewrites the property lists (each rewrite in each syntactic context, on base programs using every field kind), the real compiler produces byte-identical file sets for all six targets from both texts"},
			Decided: []string{"type aliases: every spelling of a basic-type token (alias table read from the grammar) is normalised to one name by getBasicType and by each GetType method that holds a spelling (ALIAS, complete over the finite alias table)",
				"comments, doc strings, whitespace, separators, positions: no generator function and no model function it calls loads Doc / Description / Line / Column or a raw type spelling outside the normalisers (READS, per function); the model builder calls no hidden-channel or optional-separator accessor and takes node text (GetText) only from tokens and from grammar rules whose derivations contain neither a doc string nor an optional separator (text-scope, decided on the grammar each run)",
				"an attribute applies only to the field it is written on: every store executed while a field definition with attributes is visited targets an object allocated by that visit (FRAME on VisitFieldDefinitionWithAttribute and the functions it calls)",
				"explicit default options versus none: NewConfiguration yields the documented default for an absent option and the given value for a present one, and the explicit default values are exactly the defaults (POST)"},
			OutOfReach: []string{"zchar[n] versus explicit NUL right padding, inline versus prefixed attribute placement, key list versus expanded pairs, MetaData-typed field versus inlined type: these relate two runs of the visitor (relational); the engine has no two-run obligations in this revision",
				"default padding versus none at the level of emitted text"}},
		"C09": {ID: "C09", Kinds: []string{"POST", "PRE", "SAFE"}, FuncMatch: regexp.MustCompile(`parser\.FormatPacketDsl$|cmd\.(init\$2|FormatPacketDslExport)$`),
			Own: func(o *Obligation) bool {
				return strings.Contains(o.Name, "C09:") || strings.Contains(o.Name, "format-error-exit")
			},
			Standin:    []string{"panic", "reparse", "tokens", "comments", "error-path", "outputs"},
			Extra:      func(e *Engine) []*Obligation { return append(e.coverObligations(), e.printObligations(10*time.Second)...) },
			Decided:    []string{"PRINT: on every return path of every formatter method that is handed a parse-tree node, each content element of the node that occurs at most once and may be present on that path (decided by SMT on the path condition) is contained in the returned text - as the text of its token / sub-rule, as the result of the formatter method it (or the whole node) was handed to, or as the keyword literal; one obligation per (context type, element), with a vacuity guard", "on a syntax error FormatPacketDsl returns its input unchanged together with an error (postcondition, all inputs)", "format -f / -d: on a formatter error exit status 1 and no file-system effect (exits clause, all inputs)", "COVER: every content element of every grammar rule (sub-rule, token with variable text, optional or repeated keyword) is read by some formatter function or printed generically with an enclosing rule - a necessary condition for retaining it; derived from the grammar, decided on the SSA"},
			Bounded:    []string{"BOUNDED (not counted as proved): on an enumerated corpus of grammar-derived sentences with comments at token boundaries, key lists of length 1..16 and fault templates, the real formatter's result re-parses, keeps the default-channel token sequence (optional ',' ';' ignored) and the comment sequence, and where the input compiles the formatted text compiles to byte-identical file sets for all six targets"},
			OutOfReach: []string{"order and multiplicity of the printed elements, elements under * / + (loop cut), comment preservation and output equality for all inputs: bounded corpus only"}},
		"C10": {ID: "C10", Kinds: []string{"POST"}, FuncMatch: regexp.MustCompile(`parser\.FormatPacketDsl$`),
			Own:        func(o *Obligation) bool { return strings.Contains(o.Name, "C09:error") },
			Standin:    []string{"idempotent", "relayout"},
			Extra:      func(e *Engine) []*Obligation { return e.layoutObligations() },
			Decided:    []string{"layout independence for all inputs: every formatter function observes its input only through token text / type / index, tree accessors, hidden-channel queries and equality of two token lines (LAYOUT, per function, decided on the SSA); with the trusted lexer fact that white space is skipped, two texts with the same tokens and the same comment-on-the-line-of-the-same-token relation give the formatter nothing to tell them apart", "(supporting) error path of FormatPacketDsl"},
			Bounded:    []string{"BOUNDED (not counted as proved): on the same enumerated corpus format(format(x)) == format(x), and two token-aware whitespace re-layouts of x (every gap one blank / one line break; gaps widened with tabs, blanks and blank lines; comments stay on the line of the same token) format to the same text"},
			OutOfReach: []string{"idempotence for all inputs: it needs the lexer's behaviour on the emitted text, which no contract on the Go functions can state"}},
		"C13": {ID: "C13", Kinds: []string{"DET"}, FuncMatch: all,
			Own:        func(o *Obligation) bool { return o.Kind == "DET" },
			Decided:    []string{"no call to an impure source (time, rand, environment) in any function of model, parser, cmd", "every effect of a `range` over a map that is visible outside the iteration commutes with the same effect for any other key (map updates: distinct keys or equal values; builder appends: equal text; stores: equal values; file-system effects: distinct paths; loop-carried variables: commutative update, or the collect-keys-then-sort idiom)"},
			OutOfReach: []string{"order of the 'Generated code for packet' lines on stdout (not part of the file set)", "nondeterminism inside library code (none known: fmt, strings, strcase are deterministic)"}},
		"C14": {ID: "C14", Kinds: []string{"FRAME"}, FuncMatch: all, PhaseBOnly: true,
			Own:        func(o *Obligation) bool { return o.Kind == "FRAME" && o.PhaseB },
			Decided:    []string{"every store, map update and delete executed by a generator function targets an object allocated by that activation (or the generator's own hasGen memo table): no generator changes the parsed model or any other pre-existing object, hence the files of one target cannot depend on which other targets ran", "together with C13 (output is a function of the model) this gives independence of target subsets and orders"},
			OutOfReach: []string{"cgo / OS level interference between writes of different targets into overlapping directories"}},
	}
}

type Evidence struct {
	PropertyID  string                 `json:"property_id"`
	Tier        string                 `json:"tier"`
	Seed        int                    `json:"seed"`
	Level       string                 `json:"level"`
	Coverage    map[string]interface{} `json:"coverage"`
	Assumptions []string               `json:"assumptions"`
	WallS       float64                `json:"wall_s"`
	Violations  int                    `json:"violations"`
}

func cmdCheck(args []string) {
	fs := flag.NewFlagSet("check", flag.ExitOnError)
	tier := fs.String("tier", envOr("VERIF_TIER", "quick"), "quick|thorough")
	updateLedger := fs.Bool("update-ledger", false, "rewrite the ledger from this run (maintainer action, never done by registered commands)")
	fs.Parse(args)
	if fs.NArg() < 1 {
		fmt.Println("usage: goverif check [-tier quick|thorough] <property>")
		os.Exit(2)
	}
	prop := fs.Arg(0)
	if emitProps[prop] != nil {
		seed, _ := strconv.Atoi(envOr("VERIF_SEED", "0"))
		os.Exit(checkEmit(prop, *tier, seed, *updateLedger))
	}
	spec := propSpecs()[prop]
	if spec == nil {
		fmt.Println("unknown property", prop)
		os.Exit(2)
	}
	seed, _ := strconv.Atoi(envOr("VERIF_SEED", "0"))
	t0 := time.Now()
	e := newEngine()
	e.runInits()
	res := runProperty(e, spec, *tier)
	code := report(e, spec, res, *tier, seed, time.Since(t0), *updateLedger)
	os.Exit(code)
}

func envOr(k, d string) string {
	if v := os.Getenv(k); v != "" {
		return v
	}
	return d
}

type propResult struct {
	reports []FuncReport
	owned   []*Obligation
	vac     []vacuityProbe
}

func runProperty(e *Engine, spec *PropSpec, tier string) *propResult {
	e.cfg.Kinds = map[string]bool{}
	for _, k := range spec.Kinds {
		e.cfg.Kinds[k] = true
	}
	for _, k := range spec.Kinds {
		if k == "FRAME" {
			e.cfg.CheckFrame = true
		}
	}
	r := &propResult{}
	for _, fn := range e.allRepoFunctions() {
		if fn.Name() == "init" && fn.Signature.Recv() == nil {
			continue
		}
		if !spec.FuncMatch.MatchString(fn.String()) {
			continue
		}
		if spec.PhaseBOnly && !e.cfg.PhaseB(fn) {
			continue
		}
		r.reports = append(r.reports, e.verifyFunction(fn))
	}
	budget := 20 * time.Second // the slowest single query on the unchanged tree takes ~2 s unloaded; margin for a loaded machine
	if tier == "thorough" {
		budget = 60 * time.Second
		e.cfg.CrossCheck = true
		thoroughTier = true
	}
	e.discharge(budget, 16)
	ownedSet := map[*Obligation]bool{}
	labelledFuncs := map[string]bool{}
	for _, n := range e.oblOrder {
		o := e.obls[n]
		if spec.Own == nil || spec.Own(o) {
			r.owned = append(r.owned, o)
			ownedSet[o] = true
			if o.Kind == "POST" && strings.Contains(o.Name, spec.ID+":") {
				labelledFuncs[o.Func] = true
			}
		}
	}
	// a labelled postcondition is proved assuming the loop invariants of its function: those invariants
	// belong to the property as well (a change that breaks the invariant must not hide behind the assumption)
	for _, n := range e.oblOrder {
		o := e.obls[n]
		if o.Kind == "INV" && !ownedSet[o] && labelledFuncs[o.Func] {
			r.owned = append(r.owned, o)
			ownedSet[o] = true
		}
	}
	if spec.Extra != nil {
		r.owned = append(r.owned, spec.Extra(e)...)
	}
	// vacuity probes: entry assumptions of every function must be satisfiable
	r.vac = e.checkVacuity(budget)
	return r
}

func (e *Engine) checkVacuity(budget time.Duration) []vacuityProbe {
	type job struct {
		i      int
		script string
	}
	ch := make(chan job, 64)
	done := make(chan bool)
	probes := e.vacuity
	for w := 0; w < 16; w++ {
		go func() {
			for j := range ch {
				probes[j.i].Res = solve(j.script, budget)
			}
			done <- true
		}()
	}
	for i := range probes {
		if len(probes[i].Assumptions) == 0 {
			probes[i].Res = SolveResult{Verdict: "sat", Backend: "trivial"}
			continue
		}
		// "assumptions => false" must NOT be provable
		ch <- job{i, smtQuery(probes[i].Assumptions, False, nil)}
	}
	close(ch)
	for w := 0; w < 16; w++ {
		<-done
	}
	return probes
}

func report(e *Engine, spec *PropSpec, r *propResult, tier string, seed int, wall time.Duration, updateLedger bool) int {
	known := map[string]KnownFinding{}
	for _, k := range loadKnownFindings() {
		if k.Property == spec.ID && k.Status == "open" {
			known[k.Obligation] = k
		}
	}
	ledger := loadLedger(spec.ID)
	violations := 0
	var lines []string
	byKind := map[string]int{}
	byBackend := map[string]int{}
	discharged := 0
	var solverSecs, maxSecs float64
	var samples []interface{}
	var knownHit, undecided, newProved []string
	newLedger := &Ledger{Property: spec.ID, Obligations: map[string]string{}, Functions: map[string]string{}}
	os.MkdirAll(filepath.Join(outRoot, "replays", spec.ID), 0755)
	for _, o := range r.owned {
		byKind[o.Kind]++
		solverSecs += o.Secs
		if o.Secs > maxSecs {
			maxSecs = o.Secs
		}
		if o.Status == "proved" {
			discharged++
			byBackend[o.Backend]++
			newLedger.Obligations[o.Name] = "proved"
			if len(samples) < 4 && o.Backend != "simplifier" && len(o.Instances) == 0 {
				samples = append(samples, map[string]interface{}{"obligation": o.Name, "kind": o.Kind, "goal": o.Desc, "verdict": "holds", "backend": o.Backend})
			} else if len(samples) < 4 && o.Backend != "simplifier" {
				samples = append(samples, map[string]interface{}{"obligation": o.Name, "kind": o.Kind, "goal": truncate(o.Instances[len(o.Instances)-1].Goal.String(), 400), "instances": len(o.Instances), "verdict": "unsat", "backend": o.Backend, "secs": o.Secs})
			}
			if st, ok := ledger.Obligations[o.Name]; ok && st != "proved" {
				newProved = append(newProved, o.Name)
			}
			continue
		}
		if k, ok := known[o.Name]; ok {
			knownHit = append(knownHit, o.Name)
			newLedger.Obligations[o.Name] = "known-finding"
			lines = append(lines, fmt.Sprintf("KNOWN-FINDING: property=%s %s %s", spec.ID, o.Name, k.What))
			continue
		}
		if ledger.Obligations[o.Name] == "undecided" {
			undecided = append(undecided, o.Name)
			newLedger.Obligations[o.Name] = "undecided"
			continue
		}
		newLedger.Obligations[o.Name] = "failed"
		violations++
		path := writeReplay(e, spec, o, tier)
		suffix := ""
		if !strings.HasSuffix(path, ".reproduced.json") {
			suffix = " no-failing-input-found"
		}
		lines = append(lines, fmt.Sprintf("VIOLATION property=%s replay=%s%s", spec.ID, path, suffix))
	}
	// functions that left the verified subset
	var outOfSubset []string
	for _, fr := range r.reports {
		if fr.Err != "" {
			newLedger.Functions[fr.Func] = "out-of-subset"
			outOfSubset = append(outOfSubset, fr.Func+": "+fr.Err)
			if ledger.Functions[fr.Func] != "out-of-subset" {
				violations++
				p := filepath.Join(outRoot, "replays", spec.ID, sanitize(fr.Func)+".subset.json")
				writeJSON(p, map[string]interface{}{"property": spec.ID, "obligation": fr.Func + "#SUBSET", "reason": "function cannot be verified: " + fr.Err, "verifier_output": fr.Err})
				lines = append(lines, fmt.Sprintf("VIOLATION property=%s replay=%s no-failing-input-found", spec.ID, p))
			}
		} else {
			newLedger.Functions[fr.Func] = "ok"
			if fr.Paths == 0 && fr.Exits == 0 {
				// no path reaches a return or an exit: every obligation of the function would be vacuous
				violations++
				p := filepath.Join(outRoot, "replays", spec.ID, sanitize(fr.Func)+".nopath.json")
				writeJSON(p, map[string]interface{}{"property": spec.ID, "obligation": fr.Func + "#VAC:nopath", "reason": "symbolic execution of the function reaches neither a return nor an exit: contradictory assumptions or a modelling gap"})
				lines = append(lines, fmt.Sprintf("VIOLATION property=%s replay=%s no-failing-input-found", spec.ID, p))
			}
		}
	}
	// vacuity
	vacFail := 0
	for _, v := range r.vac {
		if v.Res.Verdict == "unsat" {
			vacFail++
			violations++
			p := filepath.Join(outRoot, "replays", spec.ID, sanitize(v.Func)+".vacuous.json")
			writeJSON(p, map[string]interface{}{"property": spec.ID, "obligation": v.Func + "#VAC", "reason": "contradictory entry assumptions (requires / invariants): every obligation of this function would be vacuous"})
			lines = append(lines, fmt.Sprintf("VIOLATION property=%s replay=%s no-failing-input-found", spec.ID, p))
		}
	}
	// contract targets that no longer resolve
	for _, c := range e.contracts.unattached(e) {
		violations++
		p := filepath.Join(outRoot, "replays", spec.ID, sanitize(c)+".unattached.json")
		writeJSON(p, map[string]interface{}{"property": spec.ID, "obligation": c + "#ATTACH", "reason": "contract target missing: a written contract no longer resolves to a function"})
		lines = append(lines, fmt.Sprintf("VIOLATION property=%s replay=%s no-failing-input-found", spec.ID, p))
	}
	if len(r.owned) == 0 {
		violations++
		lines = append(lines, fmt.Sprintf("VIOLATION property=%s replay=%s no-failing-input-found", spec.ID, filepath.Join(outRoot, "replays", spec.ID, "no-obligations.json")))
		writeJSON(filepath.Join(outRoot, "replays", spec.ID, "no-obligations.json"), map[string]interface{}{"property": spec.ID, "reason": "zero obligations generated"})
	}
	var standinInfo map[string]interface{}
	if len(spec.Standin) > 0 {
		if err := runFormatterStandin(e, seed); err != nil {
			violations++
			p := filepath.Join(outRoot, "replays", spec.ID, "standin-harness.json")
			writeJSON(p, map[string]interface{}{"property": spec.ID, "obligation": "BOUNDED:" + spec.ID + ":harness", "verifier_output": err.Error()})
			lines = append(lines, fmt.Sprintf("VIOLATION property=%s replay=%s no-failing-input-found", spec.ID, p))
		} else {
			names, detail := standinFailures(spec.ID, spec.Standin)
			nKnown := 0
			for _, n := range names {
				o := detail[n]
				if k, ok := known[n]; ok {
					nKnown++
					knownHit = append(knownHit, n)
					lines = append(lines, fmt.Sprintf("KNOWN-FINDING: property=%s %s %s", spec.ID, n, k.What))
					continue
				}
				violations++
				p := filepath.Join(outRoot, "replays", spec.ID, sanitize(n)+".reproduced.json")
				writeJSON(p, map[string]interface{}{"property": spec.ID, "obligation": n, "class": o.Class, "input": standinInputs[o.File], "observed": o.Note, "entry": "parser.FormatPacketDsl (real code, go test -overlay)"})
				lines = append(lines, fmt.Sprintf("VIOLATION property=%s replay=%s", spec.ID, p))
			}
			standinInfo = map[string]interface{}{"corpus_inputs": standinCount, "formatted": len(standinOut["formatted"]), "syntax_errors": len(standinOut["syntax-error"]), "failing_pairs": len(names), "known": nKnown, "classes": spec.Standin,
				"bound": "corpus enumerated by goverif/standin.go from grammar/PacketDsl.g4 (every alternative / optional element toggled, <=3 rounds of choice-point discovery), key lists of length 1..16, comments at <=4 token boundaries per sentence (quick) / at every token boundary (thorough), 3 token-aware whitespace re-layouts per input"}
		}
	}
	if spec.Crash {
		outs := runCrashCorpus(e)
		seen := map[string]bool{}
		nCrash, nKnown := 0, 0
		for _, oc := range outs {
			if oc.Panic == "" {
				continue
			}
			n := fmt.Sprintf("BOUNDED:%s:crash:%s", spec.ID, inputID(oc.Input))
			if seen[n] {
				continue
			}
			seen[n] = true
			nCrash++
			if k, ok := known[n]; ok {
				nKnown++
				knownHit = append(knownHit, n)
				lines = append(lines, fmt.Sprintf("KNOWN-FINDING: property=%s %s %s", spec.ID, n, k.What))
				continue
			}
			violations++
			p := filepath.Join(outRoot, "replays", spec.ID, sanitize(n)+".reproduced.json")
			writeJSON(p, map[string]interface{}{"property": spec.ID, "obligation": n, "input": oc.Input, "entry": oc.Entry, "observed": "panic: " + oc.Panic, "frames": oc.Frames})
			lines = append(lines, fmt.Sprintf("VIOLATION property=%s replay=%s", spec.ID, p))
		}
		if len(outs) == 0 {
			violations++
			p := filepath.Join(outRoot, "replays", spec.ID, "crash-harness.json")
			writeJSON(p, map[string]interface{}{"property": spec.ID, "obligation": "BOUNDED:" + spec.ID + ":crash:harness", "verifier_output": "the crash corpus harness produced no outcome"})
			lines = append(lines, fmt.Sprintf("VIOLATION property=%s replay=%s no-failing-input-found", spec.ID, p))
		}
		standinInfo = map[string]interface{}{"corpus_inputs": crashCorpusSize, "outcomes": len(outs), "crashing_inputs": nCrash, "known": nKnown,
			"bound": "grammar-derived sentences (every alternative / optional element toggled) with and without a prelude of two packets, plus hand-written fault templates (duplicates, dangling references, cycles also through inline objects, extreme sizes, syntax errors), each run through FormatPacketDsl, ParseFile and the six generators of the real code in a subprocess"}
	}
	if spec.Faults {
		e.runFaults()
		if faultsErr != nil {
			violations++
			p := filepath.Join(outRoot, "replays", spec.ID, "fault-harness.json")
			writeJSON(p, map[string]interface{}{"property": spec.ID, "obligation": "BOUNDED:" + spec.ID + ":fault:harness", "verifier_output": faultsErr.Error()})
			lines = append(lines, fmt.Sprintf("VIOLATION property=%s replay=%s no-failing-input-found", spec.ID, p))
		}
		var names []string
		for n := range faultsFail {
			names = append(names, n)
		}
		sort.Strings(names)
		nKnown := 0
		for _, n := range names {
			if k, ok := known[n]; ok {
				nKnown++
				knownHit = append(knownHit, n)
				lines = append(lines, fmt.Sprintf("KNOWN-FINDING: property=%s %s %s", spec.ID, n, k.What))
				continue
			}
			violations++
			p := filepath.Join(outRoot, "replays", spec.ID, sanitize(n)+".reproduced.json")
			rec := faultsFail[n]
			rec["property"] = spec.ID
			rec["obligation"] = n
			rec["entry"] = "parser.ParseFile (real code, go test -overlay)"
			writeJSON(p, rec)
			lines = append(lines, fmt.Sprintf("VIOLATION property=%s replay=%s", spec.ID, p))
		}
		standinInfo = map[string]interface{}{"cases": faultsCount, "cases_run": faultsDone, "failing": len(names), "known": nKnown,
			"bound": "fault cases enumerated by goverif/spell.go: each fault class of the property injected at each site of a 28-line base program where it can occur (top level, other packet, inline object, key list, both attribute placements), plus well-formed programs using every documented option value"}
	}
	if spec.Pairs {
		e.runSpellPairs()
		if pairsErr != nil {
			violations++
			p := filepath.Join(outRoot, "replays", spec.ID, "pairs-harness.json")
			writeJSON(p, map[string]interface{}{"property": spec.ID, "obligation": "BOUNDED:" + spec.ID + ":pair:harness", "verifier_output": pairsErr.Error()})
			lines = append(lines, fmt.Sprintf("VIOLATION property=%s replay=%s no-failing-input-found", spec.ID, p))
		}
		var names []string
		for n := range pairsFail {
			names = append(names, n)
		}
		sort.Strings(names)
		nKnown := 0
		for _, n := range names {
			o := pairsFail[n]
			if k, ok := known[n]; ok {
				nKnown++
				knownHit = append(knownHit, n)
				lines = append(lines, fmt.Sprintf("KNOWN-FINDING: property=%s %s %s", spec.ID, n, k.What))
				continue
			}
			violations++
			p := filepath.Join(outRoot, "replays", spec.ID, sanitize(n)+".reproduced.json")
			writeJSON(p, map[string]interface{}{"property": spec.ID, "obligation": n, "rewrite": o.Pair.Label, "input_a": o.Pair.A, "input_b": o.Pair.B, "observed": o.Note, "entry": "parser.ParseFile + the six generators (real code, go test -overlay)"})
			lines = append(lines, fmt.Sprintf("VIOLATION property=%s replay=%s", spec.ID, p))
		}
		standinInfo = map[string]interface{}{"pairs": pairsCount, "pairs_run": pairsDone, "failing_pairs": len(names), "known": nKnown,
			"bound": "pairs enumerated by goverif/spell.go: every alias of every basic-type token (from the grammar) in every context it can occur (field, repeat, MetaData entry, inline object, length field in both placements, checksum field in both placements, match key, option value), string/char[], zchar/NUL right padding, default padding, attribute placement, explicit default options, key lists, MetaData-typed fields, separators, whitespace, comments, doc strings, attribute locality"}
	}
	var vanished []string
	for n, st := range ledger.Obligations {
		if _, ok := newLedger.Obligations[n]; !ok && st == "proved" {
			vanished = append(vanished, n)
		}
	}
	sort.Strings(vanished)
	for _, l := range lines {
		fmt.Println(l)
	}
	// evidence
	var assumptions []string
	for a := range e.assumed {
		assumptions = append(assumptions, a)
	}
	assumptions = append(assumptions,
		"Go integers are modelled as mathematical integers with an explicit no-overflow obligation on every non-constant + - * ; slice capacities and string lengths are bounded by 2^48",
		"strings are abstract: literals are distinct constants, everything else is uninterpreted (no character-level reasoning)",
		"interfaces never hold typed nil pointers (checked at every MakeInterface of the repository as SAFE:...:typednil, assumed for values from the heap / parameters / trusted externals)",
		"pointer parameters and heap-stored pointers refer to whole allocated objects (no interior pointers escape)",
		"x/tools go/ssa construction, z3 4.8.12 / z3 5.1.0 / cvc5 1.0 are trusted")
	sort.Strings(assumptions)
	var funcs []string
	nContract := 0
	for _, fr := range r.reports {
		funcs = append(funcs, fr.Func)
		if fr.Contract {
			nContract++
		}
	}
	level := "proof"
	expl := fmt.Sprintf("contract-based deductive verification of the real Go code (go/ssa): %d obligations generated for %d functions, %d discharged (%v); %d open known findings, %d undecided (never counted as proved), %d vanished since the ledger.", len(r.owned), len(r.reports), discharged, byBackend, len(knownHit), len(undecided), len(vanished))
	// the level is the one declared in MANIFEST.json: "proof" only where every conjunct of the property
	// is an obligation (C11, C14); a proof-level record needs discharged == obligations, which an
	// open known finding would break (none is recorded for C11 / C14)
	if spec.ID != "C11" && spec.ID != "C14" {
		level = "other"
	}
	cov := map[string]interface{}{
		"obligations":                     len(r.owned),
		"discharged":                      discharged,
		"checker_cmd":                     "/verif/bin/goverif check -tier " + tier + " " + spec.ID,
		"trusted_base":                    []string{"golang.org/x/tools go/ssa v0.29.0", "z3 4.8.12", "z3 5.1.0", "cvc5 1.0", "ANTLR runtime + generated parser w.r.t. grammar-derived tree contracts", "library contracts in goverif/externs.go (fmt, strings, strconv, regexp, sort, os, html/template, strcase, cobra, cgo)"},
		"explanation":                     expl,
		"samples":                         samples,
		"by_kind":                         byKind,
		"by_backend":                      byBackend,
		"solver_secs_sum":                 solverSecs,
		"solver_secs_max":                 maxSecs,
		"slowest":                         slowest(r.owned, 8),
		"solver_secs_max_query":           maxQuerySecs(r.owned),
		"needed_second_solver":            secondSolver(r.owned),
		"functions_verified":              len(r.reports),
		"functions_with_written_contract": nContract,
		"functions":                       funcs,
		"functions_out_of_subset":         outOfSubset,
		"known_findings":                  knownHit,
		"undecided":                       undecided,
		"vanished":                        vanished,
		"newly_proved":                    newProved,
		"vacuity_probes":                  len(r.vac),
		"vacuity_failures":                vacFail,
		"conjuncts_decided":               spec.Decided,
		"conjuncts_out_of_reach":          spec.OutOfReach,
		"bounded_standins":                spec.Bounded,
		"bounded_standin_run":             standinInfo,
		"contract_files":                  e.contracts.files,
		"grammar":                         e.tree.src,
	}
	if len(samples) == 0 {
		cov["samples"] = []interface{}{map[string]interface{}{"note": "all obligations closed by the simplifier"}}
	}
	ev := Evidence{PropertyID: spec.ID, Tier: tier, Seed: seed, Level: level, Coverage: cov, Assumptions: assumptions, WallS: wall.Seconds(), Violations: violations}
	os.MkdirAll(filepath.Join(outRoot, "evidence"), 0755)
	writeJSON(filepath.Join(outRoot, "evidence", spec.ID+".json"), ev)
	if updateLedger {
		for n, st := range newLedger.Obligations {
			if st == "failed" {
				newLedger.Obligations[n] = "undecided"
			}
		}
		os.MkdirAll(filepath.Join(verifRoot, "ledger"), 0755)
		writeJSON(filepath.Join(verifRoot, "ledger", spec.ID+".json"), newLedger)
	}
	fmt.Printf("%s: obligations=%d discharged=%d known-findings=%d undecided=%d violations=%d wall=%.1fs\n", spec.ID, len(r.owned), discharged, len(knownHit), len(undecided), violations, wall.Seconds())
	if violations > 0 {
		return 1
	}
	return 0
}

func truncate(s string, n int) string {
	if len(s) > n {
		return s[:n] + "..."
	}
	return s
}

func sanitize(s string) string {
	r := strings.NewReplacer("/", "_", " ", "_", "*", "", "(", "", ")", "", ":", "_", "#", "-", "[", "", "]", "", "{", "", "}", "", ";", "")
	out := r.Replace(s)
	if len(out) > 180 {
		out = out[:180]
	}
	return out
}

func writeJSON(path string, v interface{}) {
	b, err := json.MarshalIndent(v, "", " ")
	if err != nil {
		panic(err)
	}
	os.WriteFile(path, b, 0644)
}

// unattached: written contracts whose key matches no function of the loaded program.
func (cs *Contracts) unattached(e *Engine) []string {
	have := map[string]bool{}
	for _, fn := range e.allRepoFunctions() {
		have[e.shortFunc(fn)] = true
	}
	var out []string
	for k := range cs.byKey {
		if !have[k] {
			out = append(out, k)
		}
	}
	sort.Strings(out)
	return out
}

func writeReplay(e *Engine, spec *PropSpec, o *Obligation, tier string) string {
	base := filepath.Join(outRoot, "replays", spec.ID, sanitize(o.Name))
	rec := map[string]interface{}{
		"property":   spec.ID,
		"obligation": o.Name,
		"kind":       o.Kind,
		"desc":       o.Desc,
		"pos":        o.Pos,
	}
	if o.Fail != nil {
		rec["verdict"] = o.Fail.Res.Verdict
		rec["backend"] = o.Fail.Res.Backend
		rec["goal"] = truncate(o.Fail.Goal.String(), 4000)
		var as []string
		for _, a := range o.Fail.Assumptions {
			as = append(as, truncate(a.String(), 1000))
		}
		rec["path_condition"] = as
		rec["verifier_output"] = truncate(o.Fail.Res.Raw, 8000)
	}
	rep := replayObligation(e, spec, o)
	if rep != nil {
		rec["replay"] = rep
		if rep.Reproduced {
			p := base + ".reproduced.json"
			writeJSON(p, rec)
			return p
		}
	}
	p := base + ".json"
	writeJSON(p, rec)
	return p
}

type ReplayResult struct {
	Reproduced bool   `json:"reproduced"`
	Input      string `json:"input,omitempty"`
	Entry      string `json:"entry,omitempty"`
	Observed   string `json:"observed,omitempty"`
	Tried      int    `json:"candidates_tried"`
	Note       string `json:"note,omitempty"`
}

var _ = ssa.NewConst

// ---------------------------------------------------------------- EMIT properties (C01..C07)

type emitPropSpec struct {
	Decided    []string
	OutOfReach []string
}

var emitProps = map[string]*emitPropSpec{
	"C01": {Decided: []string{"encode emitters of Go, Rust, Java, Python, C++: per cell (field kind x repeat x type) the emitted step names the field (not skipped), depends on exactly the configuration attributes the property dictates (byte order, string prefix, array prefix, length, effective padding), and differs between the byte orders exactly when it must"},
		OutOfReach: []string{"the bytes produced when the emitted code runs against the codec runtimes (not in the repository)", "literal spelling of runtime API names inside format strings"}},
	"C02": {Decided: []string{"decode emitters: same obligations as for encode; encode/decode symmetry per language and cell: same configuration atoms in the same order"},
		OutOfReach: []string{"round trip on bytes, 'leaves following bytes unread'"}},
	"C03": {Decided: []string{"every per-cell obligation of C01/C02 holds in all five codec languages, so no language drifts in which configuration attributes steer a cell"},
		OutOfReach: []string{"byte identity between languages"}},
	"C04": {Decided: []string{"length-of cells: the placeholder step depends on the length field's own type and on the byte order and on no prefix option; the back-patch of the target names the length field; the target's own encode step is still emitted"},
		OutOfReach: []string{"that the patched value equals the number of bytes written"}},
	"C05": {Decided: []string{"match cells (three keys, two of them selecting the same packet): every key reaches the dispatch code of Go (registration), Java (factory), Rust (decode arms) and Lua"},
		OutOfReach: []string{"Python / C++ factory blocks (emitted inside a packet-level function that exceeds the cell executor's budget)", "run-time behaviour on an unmapped key"}},
	"C06": {Decided: []string{"checksum cells: the encode step depends on the algorithm name, on the field's declared type and on the byte order; the decode step reads with the same type and byte order dependence"},
		OutOfReach: []string{"which bytes the runtime service sums; the unregistered-name fallback at run time"}},
	"C15": {Decided: []string{"Lua dissector emitters (main dissector, sub dissector, field definitions), per cell and for every documented prefix type and byte order: every read buf(offset, W) of a step is followed by offset = offset + W with the same W (advance); the offset returned by a nested dissector is assigned (nested) and every emitted sub dissector ends in `return offset` (returns); every variable a step uses is a parameter or local of the emitted function (scope); W is the wire size of the declared type, a prefix is fetched with the size and accessor of the configured prefix type and byte order and the payload width is that fetched variable (width); every fields.X a step displays is defined by the field-definition emitter (defines); every key of a match table is compared with the key variable (key-compared); the field is named, steps come in declaration order, the step depends on exactly the configuration attributes it must (name / order / dep / le, shared with C02 / C07)"},
		OutOfReach: []string{"the (field, offset, length) sequence Wireshark shows when the emitted Lua is interpreted on a canonical encoding: no Lua interpreter and no contract on a Go function can decide it; the predicates above are the template-level conditions the property needs", "that a `local function dissect_x` precedes every call of dissect_x for all inputs: checked on enumerated programs only (bounded, not counted as proved)"}},
	"C17": {Decided: []string{"unit-test emitters of Go, Rust, Java, Python, C++, per cell: the sample message gives the member under test a value on every path (scalars, strings, nested and inline packets, match payloads and their repeated forms); no placeholder / unsupported marker text; the sample value of a char[n] member is built from the declared n; the sample of a repeated member is a collection (the emitted text differs from the text for the same member unrepeated)"},
		OutOfReach: []string{"the verdict of the five foreign test runners on the emitted tests against the codec runtimes (not in the repository): not a statement over Go functions", "that the emitted test files are valid programs for all inputs: Go and Python test files are parsed and checked for unbound names, Java test files for their file name, on enumerated programs only (bounded, not counted as proved); Rust and C++ (and Java beyond the file name) need toolchains / runtime sources that are not installed", "the text of nested sample builders reached through recursion (summarised by the path executor)"}},
	"C07": {Decided: []string{"all six targets: no cell makes an emitter skip the field (name obligation) or emit placeholder / 'unsupported' marker text, on any feasible path"},
		OutOfReach: []string{"that every emitted file is a valid program of its target language"}},
}

func checkEmit(prop, tier string, seed int, updateLedger bool) int {
	t0 := time.Now()
	e := newEngine()
	e.runInits()
	e.cfg.Kinds = map[string]bool{}
	e.cfg.Modular = false
	e.cfg.AllowRecursion = true
	e.cfg.MaxDepth = 40
	e.cfg.MaxSteps = 100000 // largest cell on the unchanged tree needs < 10 000 basic blocks
	var runs []emitRun
	langs := map[string]bool{}
	for _, en := range emitEntries() {
		for _, c := range emitCells() {
			if en.Dir == "dispatch" && c.Kind != "match" {
				continue
			}
			if c.Kind == "empty" && !(en.Lang == "lua" && (en.Dir == "dec" || en.Dir == "sub")) {
				continue
			}
			if c.Kind == "order" && (en.Dir == "dispatch" || en.Lang == "rust") {
				continue // Rust's entries are per field; the order of its steps is decided by the caller loop
			}
			// only the cells that can carry an obligation of this property
			if (en.Dir == "test") != (prop == "C17") {
				continue // the unit-test emitters carry obligations of C17 only
			}
			if (prop == "C15") != (en.Lang == "lua") && (prop == "C15" || en.Dir != "dec") {
				continue // C15 runs the Lua emitters only; the other properties do not need the extra Lua entries
			}
			switch prop {
			case "C04":
				if c.Kind != "length" && !c.LenAttr {
					continue
				}
			case "C05":
				if c.Kind != "match" {
					continue
				}
			case "C06":
				if c.Kind != "checksum" {
					continue
				}
			}
			runs = append(runs, e.runEmit(en, c))
			langs[en.Lang] = true
		}
	}
	all := e.evalEmit(runs)
	all = append(all, labelledContractObligations(prop, tier)...)
	if prop == "C15" {
		all = append(all, luaFileObligations()...)
	}
	if prop == "C17" {
		all = append(all, testFileObligations()...)
	}
	agreeSkipped := 0
	if tier == "thorough" {
		var ag []emitObl
		ag, agreeSkipped = agreeObligations(runs)
		all = append(all, ag...)
	}
	var owned []emitObl
	for _, o := range all {
		for _, p := range o.Props {
			if p == prop {
				owned = append(owned, o)
			}
		}
	}
	known := map[string]KnownFinding{}
	for _, k := range loadKnownFindings() {
		if k.Property == prop && k.Status == "open" {
			known[k.Obligation] = k
		}
	}
	ledger := loadLedger(prop)
	newLedger := &Ledger{Property: prop, Obligations: map[string]string{}, Functions: map[string]string{}}
	violations, discharged := 0, 0
	var lines, knownHit []string
	var samples []interface{}
	os.MkdirAll(filepath.Join(outRoot, "replays", prop), 0755)
	nReplays := 0
	bounded, boundedFailing, boundedNotRun := 0, 0, 0
	for _, o := range owned {
		if strings.HasPrefix(o.Name, "BOUNDED:") {
			bounded++
			if strings.HasPrefix(o.Detail, "NOT RUN") {
				boundedNotRun++
			}
			if !o.OK {
				boundedFailing++
			}
		}
		if o.OK {
			if strings.HasPrefix(o.Name, "BOUNDED:") {
				newLedger.Obligations[o.Name] = "proved"
				continue
			}
			discharged++
			newLedger.Obligations[o.Name] = "proved"
			if len(samples) < 4 {
				samples = append(samples, map[string]interface{}{"obligation": o.Name, "verdict": "holds", "detail": o.Detail})
			}
			continue
		}
		if k, ok := known[o.Name]; ok {
			knownHit = append(knownHit, o.Name)
			newLedger.Obligations[o.Name] = "known-finding"
			lines = append(lines, fmt.Sprintf("KNOWN-FINDING: property=%s %s %s", prop, o.Name, k.What))
			continue
		}
		newLedger.Obligations[o.Name] = "failed"
		violations++
		p := filepath.Join(outRoot, "replays", prop, sanitize(o.Name)+".json")
		rec := map[string]interface{}{"property": prop, "obligation": o.Name, "verifier_output": o.Detail}
		// the cell itself is the failing input class: replay = the emitted text of the real emitter on it
		for _, r := range runs {
			if strings.HasPrefix(o.Name, fmt.Sprintf("EMIT:%s:%s:%s:", r.entry.Lang, r.entry.Dir, r.cell.ID)) {
				var texts []string
				for i, pth := range r.paths {
					if i < 3 {
						texts = append(texts, truncate(pth.text.String(), 1500))
					}
				}
				rec["emitter"] = r.entry.Fn
				rec["cell"] = r.cell
				rec["emitted_text_of_the_real_emitter"] = texts
			}
		}
		suffix := " no-failing-input-found"
		if o.Replay != nil {
			rec["replay"] = o.Replay
			if r, _ := o.Replay["reproduced"].(bool); r {
				p = filepath.Join(outRoot, "replays", prop, sanitize(o.Name)+".reproduced.json")
				suffix = ""
			}
		} else if nReplays < 12 { // each replay is one build + run of the real emitter (a few seconds)
			nReplays++
			if rep := replayEmit(o, runs); rep != nil {
				rec["replay"] = rep
				if r, _ := rep["reproduced"].(bool); r {
					p = filepath.Join(outRoot, "replays", prop, sanitize(o.Name)+".reproduced.json")
					suffix = ""
				}
			}
		}
		writeJSON(p, rec)
		lines = append(lines, fmt.Sprintf("VIOLATION property=%s replay=%s%s", prop, p, suffix))
	}
	var vanished []string
	for n, st := range ledger.Obligations {
		if _, ok := newLedger.Obligations[n]; !ok && st == "proved" {
			vanished = append(vanished, n)
		}
	}
	// an obligation that existed on the unchanged tree must still be generated (renamed emitter etc.)
	for _, n := range vanished {
		violations++
		p := filepath.Join(outRoot, "replays", prop, sanitize(n)+".vanished.json")
		writeJSON(p, map[string]interface{}{"property": prop, "obligation": n, "reason": "obligation of the ledger is no longer generated: the emitter it is attached to cannot be found or executed"})
		lines = append(lines, fmt.Sprintf("VIOLATION property=%s replay=%s no-failing-input-found", prop, p))
	}
	if len(owned) == 0 {
		violations++
		lines = append(lines, fmt.Sprintf("VIOLATION property=%s replay=%s no-failing-input-found", prop, filepath.Join(outRoot, "replays", prop, "no-obligations.json")))
	}
	for _, l := range lines {
		fmt.Println(l)
	}
	spec := emitProps[prop]
	var ls []string
	for l := range langs {
		ls = append(ls, l)
	}
	sort.Strings(ls)
	level := "other"
	cov := map[string]interface{}{
		"obligations":            len(owned) - bounded,
		"discharged":             discharged,
		"checker_cmd":            "/verif/bin/goverif check -tier " + tier + " " + prop,
		"trusted_base":           []string{"golang.org/x/tools go/ssa v0.29.0", "library contracts in goverif/externs.go (fmt.Sprintf, strings.Builder, strcase, html/template rendering)", "z3 / cvc5 (feasibility of result paths)"},
		"agree_cells_skipped":    agreeSkipped,
		"explanation":            fmt.Sprintf("EMIT obligations: the real emitters of %v are executed symbolically on %d cell runs (one-field packets; names, lengths, paddings and the whole Configuration symbolic); predicates over the normal form of the emitted text (literal and provenance-carrying atoms) are decided structurally; infeasible result paths are pruned by SMT. %d obligations, %d hold, %d open known findings. Level 'other': the conjuncts about what the emitted text means when run are out of reach (see conjuncts_out_of_reach).", ls, len(runs), len(owned), discharged, len(knownHit)),
		"samples":                samples,
		"cells":                  len(emitCells()),
		"runs":                   len(runs),
		"languages":              ls,
		"known_findings":         knownHit,
		"vanished":               vanished,
		"conjuncts_decided":      spec.Decided,
		"conjuncts_out_of_reach": spec.OutOfReach,
		"exhaustive":             false,
	}
	if bounded > 0 && prop == "C17" {
		cov["bounded_standins"] = []string{"BOUNDED (not counted as proved): the real Go, Python and Java generators on enumerated programs: every emitted *_test.go parses with go/parser and uses no undeclared identifier, every emitted *_test.py parses with python3 ast and loads no unbound name, every Java test file is named after the public class it declares"}
		cov["bounded_standin_run"] = map[string]interface{}{"bound": fmt.Sprintf("%d programs enumerated in goverif/emittest.go (testPrograms), 3 languages", len(testPrograms())), "cases": bounded, "failing": boundedFailing, "not_run": boundedNotRun}
	} else if bounded > 0 {
		cov["bounded_standins"] = []string{"BOUNDED (not counted as proved): the real LuaWspGenerator.Generate on enumerated programs (declaration order x reference kind x nesting): whole-file advance / scope / defines / returns, and a `local function dissect_x` precedes every call of dissect_x"}
		cov["bounded_standin_run"] = map[string]interface{}{"bound": fmt.Sprintf("%d programs enumerated in goverif/lua.go (luaPrograms), 5 predicates each", len(luaPrograms())), "cases": bounded, "failing": boundedFailing}
	}
	ev := Evidence{PropertyID: prop, Tier: tier, Seed: seed, Level: level, Coverage: cov, WallS: time.Since(t0).Seconds(), Violations: violations,
		Assumptions: []string{"strings are abstract: predicates speak about provenance and literal atoms of the emitted template, not about characters produced for unusual names", "option values range over the documented sets (u8/u16/u32/u64 prefixes)", "library contracts of fmt.Sprintf / strings.Builder / strcase / html/template are trusted"}}
	os.MkdirAll(filepath.Join(outRoot, "evidence"), 0755)
	writeJSON(filepath.Join(outRoot, "evidence", prop+".json"), ev)
	if updateLedger {
		os.MkdirAll(filepath.Join(verifRoot, "ledger"), 0755)
		writeJSON(filepath.Join(verifRoot, "ledger", prop+".json"), newLedger)
	}
	fmt.Printf("%s: obligations=%d discharged=%d known-findings=%d violations=%d wall=%.1fs\n", prop, len(owned), discharged, len(knownHit), violations, time.Since(t0).Seconds())
	if violations > 0 {
		return 1
	}
	return 0
}

// slowest: the n obligations with the largest solver time (to watch for queries near the budget).
func slowest(obls []*Obligation, n int) []map[string]interface{} {
	cp := append([]*Obligation(nil), obls...)
	sort.Slice(cp, func(i, j int) bool { return cp[i].Secs > cp[j].Secs })
	var out []map[string]interface{}
	for i := 0; i < n && i < len(cp); i++ {
		if cp[i].Secs < 0.5 {
			break
		}
		out = append(out, map[string]interface{}{"obligation": cp[i].Name, "secs": cp[i].Secs, "backend": cp[i].Backend, "instances": len(cp[i].Instances)})
	}
	return out
}

// labelledContractObligations: written postconditions labelled [<prop>:...] on generator functions
// (e.g. C07: the C++ emitter marks every referenced packet as generated before it emits the struct that
// uses it) are verified by the path executor in a second engine and reported with the EMIT obligations
// of that property.
func labelledContractObligations(prop, tier string) []emitObl {
	targets := map[string]*regexp.Regexp{
		"C07": regexp.MustCompile(`parser\.CppGenerator\)\.generateCodeForPacket$`),
		"C01": regexp.MustCompile(`model\.NewConfiguration$`), // options -> Configuration: shared with C08
		"C04": regexp.MustCompile(`PacketDslVisitorImpl\)\.VisitPacketDefinition$`),
		"C05": regexp.MustCompile(`PacketDslVisitorImpl\)\.VisitMatchPair$`),
		"C06": regexp.MustCompile(`PacketDslVisitorImpl\)\.(VisitCheckSumFieldDeclaration|VisitFieldDefinitionWithAttribute|VisitFieldDefinition|VisitMatchFieldDeclaration|VisitLengthFieldDeclaration|VisitInerObjectField|metaDataDeclarationToField)$`),
	}
	re, ok := targets[prop]
	if !ok {
		return nil
	}
	e := newEngine()
	e.runInits()
	spec := &PropSpec{ID: prop, Kinds: []string{"POST", "PRE", "INV", "SAFE"}, FuncMatch: re,
		// the labelled postconditions and the loop invariants they rest on
		Own: func(o *Obligation) bool {
			if strings.Contains(o.Name, prop+":") || prop == "C01" && strings.Contains(o.Name, "C08:") && strings.Contains(o.Func, "NewConfiguration") {
				return true
			}
			if o.Kind != "INV" {
				return false
			}
			switch prop {
			case "C07":
				return true
			case "C04":
				return strings.Contains(o.Desc, "TragetField") || strings.Contains(o.Desc, "fieldMap[k]") || strings.Contains(o.Desc, "== lengthField")
			case "C05":
				return strings.Contains(o.Desc, "istokentext")
			case "C06":
				return strings.Contains(o.Desc, "csText")
			}
			return false
		}}
	res := runProperty(e, spec, tier)
	var out []emitObl
	for _, fr := range res.reports {
		if fr.Err != "" || (fr.Paths == 0 && fr.Exits == 0) {
			out = append(out, emitObl{Name: fr.Func + "#SUBSET", Props: []string{prop}, OK: false, Detail: "function cannot be verified: " + fr.Err})
		}
	}
	for _, o := range res.owned {
		d := o.Desc
		if o.Status != "proved" && o.Fail != nil {
			d += "; verdict " + o.Fail.Res.Verdict + " by " + o.Fail.Res.Backend + "; goal " + truncate(o.Fail.Goal.String(), 1500)
		}
		out = append(out, emitObl{Name: o.Name, Props: []string{prop}, OK: o.Status == "proved", Detail: d})
	}
	if len(res.owned) == 0 {
		out = append(out, emitObl{Name: "POST:" + prop + ":contracts-present", Props: []string{prop}, OK: false, Detail: "no labelled postcondition of " + prop + " was generated"})
	}
	return out
}

// maxQuerySecs: the longest single solver query among the obligations (margin to the per-query budget).
func maxQuerySecs(obls []*Obligation) float64 {
	m := 0.0
	for _, o := range obls {
		for _, in := range o.Instances {
			if in.Res.Secs > m {
				m = in.Res.Secs
			}
		}
	}
	return m
}

// secondSolver: obligations that the first back end did not decide within its 2 s (watch list for flakiness).
func secondSolver(obls []*Obligation) []string {
	var out []string
	for _, o := range obls {
		if strings.Contains(o.Backend, "cvc5") || strings.Contains(o.Backend, "z3-5") {
			out = append(out, o.Name+" ("+o.Backend+")")
		}
	}
	return out
}
