package main

import (
	"fmt"
	"go/types"
	"regexp"
	"sort"
	"strings"

	"golang.org/x/tools/go/ssa"
)

// doCall executes a call instruction. Returns (successor states, continue-in-place).
func (e *Engine) doCall(s *State, x ssa.CallInstruction) ([]*State, bool) {
	c := x.Common()
	var args []Value
	for _, a := range c.Args {
		args = append(args, e.get(s, a))
	}
	if c.IsInvoke() {
		return e.doInvoke(s, x, args)
	}
	switch v := c.Value.(type) {
	case *ssa.Builtin:
		e.builtin(s, x, v, args)
		return nil, true
	case *ssa.Function:
		return e.callFunction(s, x, v, args, nil)
	case *ssa.MakeClosure:
		var b []Value
		for _, bv := range v.Bindings {
			b = append(b, e.get(s, bv))
		}
		return e.callFunction(s, x, v.Fn.(*ssa.Function), args, b)
	default:
		fv := e.get(s, c.Value)[0]
		e.safe(s, x, "nilfunc", Ne(fv, Zero))
		if fv.K == KFunc {
			fval := e.funcs[fv.I]
			return e.callFunction(s, x, fval.fn, args, fval.bindings)
		}
		if fv.isOp("ite") {
			// a choice of known function values: split
			var out []*State
			e.concretize(s, fv, func(st *State, f *Term) {
				if st.dead {
					return
				}
				if f.K == KFunc {
					fval := e.funcs[f.I]
					succ, cont := e.callFunction(st, x, fval.fn, args, fval.bindings)
					if cont {
						out = append(out, st)
					} else {
						out = append(out, succ...)
					}
					return
				}
				if f == Zero {
					return
				}
				e.assumed["call of unknown function value at "+e.siteName("CALL", x, "")+": result havocked, no heap effect assumed"] = true
				e.bindResult(st, x, e.havocResult(st, x, "dyn"))
				out = append(out, st)
			})
			return out, false
		}
		// unknown function value
		e.assumed["call of unknown function value at "+e.siteName("CALL", x, "")+": result havocked, no heap effect assumed"] = true
		e.bindResult(s, x, e.havocResult(s, x, "dyn"))
		return nil, true
	}
}

func (e *Engine) bindResult(s *State, x ssa.CallInstruction, v Value) {
	if val, ok := x.(ssa.Value); ok {
		s.top().regs[val] = v
	}
}

func (e *Engine) havocResult(s *State, x ssa.CallInstruction, tag string) Value {
	sig := x.Common().Signature()
	res := sig.Results()
	var out Value
	for i := 0; i < res.Len(); i++ {
		out = append(out, e.freshValue(s, res.At(i).Type(), e.freshName(fmt.Sprintf("ext.%s.r%d", tag, i)))...)
	}
	return out
}

// concretize: split a state on the ite-structure of an interface tag until it is a constant
// (or irreducibly symbolic).
func (e *Engine) concretize(s *State, tag *Term, f func(s *State, tag *Term)) {
	if tag.isOp("ite") {
		c := tag.Args[0]
		t := s.fork()
		t.assume(c)
		if !t.dead {
			e.concretize(t, tag.Args[1], f)
		}
		s.assume(Not(c))
		if !s.dead {
			e.concretize(s, tag.Args[2], f)
		}
		return
	}
	if tag.K != KInt {
		// a dynamic type fixed by an assumed equality (e.g. a callee's `ensures typeis(result, T)`)
		for _, c := range s.pc {
			if c.isOp("=") && len(c.Args) == 2 {
				if c.Args[0] == tag && c.Args[1].K == KInt {
					tag = c.Args[1]
					break
				}
				if c.Args[1] == tag && c.Args[0].K == KInt {
					tag = c.Args[0]
					break
				}
			}
		}
	}
	f(s, tag)
}

func (e *Engine) doInvoke(s *State, x ssa.CallInstruction, args []Value) ([]*State, bool) {
	c := x.Common()
	recv := e.get(s, c.Value)
	e.safe(s, x, "", Ne(recv[0], Zero))
	var out []*State
	// The frame's idx already points past the call; forks inherit it.
	e.concretize(s, recv[0], func(st *State, tag *Term) {
		if st.dead {
			return
		}
		if tag.K == KInt {
			if tag.I == 0 {
				return // excluded by the obligation just assumed
			}
			dt := e.typeByID[tag.I]
			fn := e.lookupMethod(dt, c.Method)
			if fn == nil {
				if it, ok := c.Value.Type().Underlying().(*types.Interface); ok && !types.Implements(dt, it) {
					// an interface value's dynamic type implements its static type: this combination of
					// ite branches is infeasible
					st.dead = true
					return
				}
				e.fail("no method %s on %v", c.Method.Name(), dt)
			}
			var rv Value
			if isPointerShaped(dt) {
				rv = Value{recv[1]}
			} else {
				rv = e.unbox(st, dt, recv[1])
			}
			// payload of a non-nil interface holding a pointer may still be a nil pointer
			succ, cont := e.callFunction(st, x, fn, append([]Value{rv}, args...), nil)
			if cont {
				out = append(out, st)
			} else {
				out = append(out, succ...)
			}
			return
		}
		// symbolic dynamic type
		if spec := e.externInvoke(c.Method.FullName()); spec != nil {
			spec(e, st, x, recv, args)
			out = append(out, st)
			return
		}
		targets := e.invokeTargets(c)
		if len(targets) > 0 {
			e.assumed["closed world: dynamic types of "+e.typeKey(c.Value.Type())+" are the implementations declared in the repository"] = true
			for i, fn := range targets {
				t := st
				if i < len(targets)-1 {
					t = st.fork()
				}
				rt := fn.Signature.Recv().Type()
				t.assume(Eq(recv[0], e.typeID(rt)))
				if t.dead {
					continue
				}
				var rv Value
				if isPointerShaped(rt) {
					rv = Value{recv[1]}
				} else {
					rv = e.unbox(t, rt, recv[1])
				}
				succ, cont := e.callFunction(t, x, fn, append([]Value{rv}, args...), nil)
				if cont {
					out = append(out, t)
				} else {
					out = append(out, succ...)
				}
			}
			return
		}
		e.assumed["unmodelled interface method "+c.Method.FullName()+": result havocked, no heap effect assumed"] = true
		e.bindResult(st, x, e.havocResult(st, x, c.Method.Name()))
		out = append(out, st)
	})
	return out, false
}

func (e *Engine) lookupMethod(t types.Type, m *types.Func) *ssa.Function {
	ms := e.prog.MethodSets.MethodSet(t)
	sel := ms.Lookup(m.Pkg(), m.Name())
	if sel == nil {
		return nil
	}
	return e.prog.MethodValue(sel)
}

// invokeTargets: for interfaces declared in the repository, the concrete methods of
// repository types that implement them (pointer receivers preferred as that is how
// values are created in this code base).
func (e *Engine) invokeTargets(c *ssa.CallCommon) []*ssa.Function {
	it, ok := c.Value.Type().Underlying().(*types.Interface)
	if !ok {
		return nil
	}
	named, ok := c.Value.Type().(*types.Named)
	if !ok || named.Obj().Pkg() == nil || !e.repoPkgs[named.Obj().Pkg().Path()] {
		return nil
	}
	var out []*ssa.Function
	for path := range e.repoPkgs {
		p := e.pkgs[path]
		if p == nil {
			continue
		}
		var names []string
		for n := range p.Members {
			names = append(names, n)
		}
		sort.Strings(names)
		for _, n := range names {
			tn, ok := p.Members[n].(*ssa.Type)
			if !ok {
				continue
			}
			T := tn.Type()
			if _, isIface := T.Underlying().(*types.Interface); isIface {
				continue
			}
			pt := types.NewPointer(T)
			if types.Implements(pt, it) {
				if fn := e.lookupMethod(pt, c.Method); fn != nil {
					out = append(out, fn)
				}
			}
		}
	}
	return out
}

// callFunction: extern spec | contract | inline | havoc.
func (e *Engine) callFunction(s *State, x ssa.CallInstruction, fn *ssa.Function, args []Value, bindings []Value) ([]*State, bool) {
	name := fn.String()
	if e.inInit && fn.Name() == "init" && fn.Signature.Recv() == nil && len(s.frames) == 1 {
		if fn.Pkg == nil || !e.repoPkgs[fn.Pkg.Pkg.Path()] || fn.Pkg != s.top().fn.Pkg {
			return nil, true // initialisers of imported packages: not modelled
		}
	}
	if spec := e.externFunc(name); spec != nil {
		return spec(e, s, x, fn, args)
	}
	if e.tree != nil {
		if handled := e.tree.accessor(e, s, x, fn, args); handled {
			return nil, true
		}
	}
	if fn.Blocks != nil && e.cfg.InScope(fn) {
		onStack := false
		for _, fr := range s.frames {
			if fr.fn == fn {
				onStack = true
			}
		}
		ct := e.contracts.lookup(e, fn)
		if ct != nil && (e.cfg.Modular || onStack) && !ct.inlineOnly {
			e.applyContract(s, x, fn, ct, args)
			return nil, true
		}
		if onStack && !e.cfg.AllowRecursion {
			e.fail("recursive call to %s without a contract", e.shortFunc(fn))
		}
		if len(s.frames) >= e.cfg.MaxDepth {
			e.fail("inlining depth exceeded at %s", e.shortFunc(fn))
		}
		e.pushFrame(s, x, fn, args, bindings)
		return nil, true
	}
	e.externArgWrites(s, x, fn, args)
	e.assumed["unmodelled external "+e.shortFunc(fn)+": result havocked, no heap effect assumed"] = true
	res := e.havocResult(s, x, fn.Name())
	e.bindResult(s, x, res)
	e.recordCall(s, fn, args, res)
	return nil, true
}

func (e *Engine) pushFrame(s *State, x ssa.CallInstruction, fn *ssa.Function, args []Value, bindings []Value) {
	caller := s.top()
	fr := &Frame{fn: fn, regs: map[ssa.Value]Value{}, loops: map[*ssa.BasicBlock]*loopEntry{}, call: x, params: args}
	fr.chain = caller.chain
	if fr.chain == "" {
		fr.chain = e.shortFunc(caller.fn)
	}
	for i, p := range fn.Params {
		fr.regs[p] = args[i]
	}
	for i, fv := range fn.FreeVars {
		if i >= len(bindings) {
			e.fail("missing binding for free var %s of %s", fv.Name(), fn)
		}
		fr.regs[fv] = bindings[i]
	}
	fr.block = fn.Blocks[0]
	fr.oldHeap = s.heap.clone()
	s.frames = append(s.frames, fr)
}

func (e *Engine) runDefers(s *State) {
	f := s.top()
	for i := len(f.defers) - 1; i >= 0; i-- {
		d := f.defers[i]
		c := d.call.Common()
		if c.IsInvoke() {
			e.fail("deferred interface call")
		}
		fn := c.StaticCallee()
		if fn == nil {
			e.fail("deferred dynamic call")
		}
		if spec := e.externFunc(fn.String()); spec != nil {
			// run in place; result discarded
			spec(e, s, d.call, fn, d.args)
			continue
		}
		e.fail("deferred call to %s not supported", fn)
	}
	f.defers = nil
}

// ---------------------------------------------------------------- builtins

func (e *Engine) builtin(s *State, x ssa.CallInstruction, b *ssa.Builtin, args []Value) {
	c := x.Common()
	switch b.Name() {
	case "len":
		switch t := c.Args[0].Type().Underlying().(type) {
		case *types.Slice:
			if args[0][2].K != KInt {
				s.assume(And(Le(Zero, args[0][2]), Le(args[0][2], Int(maxLen))))
			}
			e.bindResult(s, x, Value{args[0][2]})
		case *types.Basic:
			e.bindResult(s, x, Value{StrLen(args[0][0])})
		case *types.Map:
			m := args[0][0]
			n := s.sel("maplen("+e.typeKey(t)+")", SInt, []*Term{m})
			if n.K != KInt {
				s.assume(Le(Zero, n))
			}
			e.bindResult(s, x, Value{Ite(Eq(m, Zero), Zero, n)})
		case *types.Pointer:
			e.bindResult(s, x, Value{Int(t.Elem().Underlying().(*types.Array).Len())})
		default:
			e.fail("len of %v", c.Args[0].Type())
		}
	case "cap":
		e.bindResult(s, x, Value{args[0][3]})
	case "append":
		e.appendOp(s, x, args)
	case "print", "println":
	case "delete":
		mt := c.Args[0].Type().Underlying().(*types.Map)
		tk := e.typeKey(mt)
		m := args[0][0]
		addr := append([]*Term{m}, args[1]...)
		had := s.sel("mapdom("+tk+")", SBool, addr)
		e.noteWrite(s, x, Place{Prefix: "map(" + tk + ")", Addr: []*Term{m}})
		s.sto("mapdom("+tk+")", addr, False)
		oldlen := s.sel("maplen("+tk+")", SInt, []*Term{m})
		s.sto("maplen("+tk+")", []*Term{m}, Ite(had, Sub(oldlen, Int(1)), oldlen))
	case "ssa:wrapnilchk":
		e.safe(s, x, "nilrecv", Ne(args[0][0], Zero))
		e.bindResult(s, x, args[0])
	case "copy":
		e.fail("builtin copy")
	default:
		e.fail("builtin %s", b.Name())
	}
}

// appendOp: always reallocates (copy semantics). The new backing array is a fresh
// object whose first len(s) elements are read through to the old array as it was at this
// point, followed by the appended elements.
func (e *Engine) appendOp(s *State, x ssa.CallInstruction, args []Value) {
	c := x.Common()
	st := c.Args[0].Type().Underlying().(*types.Slice)
	a, b := args[0], args[1]
	if bt, ok := c.Args[1].Type().Underlying().(*types.Basic); ok && bt.Info()&types.IsString != 0 {
		// append([]byte, string...)
		r := s.newAlloc("[]byte")
		n := Add(a[2], StrLen(b[0]))
		e.bindResult(s, x, Value{r, Zero, n, n})
		return
	}
	if b[2] == Zero {
		e.bindResult(s, x, a)
		return
	}
	elemKey := "elem(" + e.typeKey(st.Elem()) + ")"
	if e.cfg.CheckFrame && e.curFramed {
		// append writes into the existing backing array when it has spare capacity: in a function that
		// may write only its own fresh objects the array must be fresh (or nil), or be full
		name := e.siteName("FRAME", x, "append")
		if ch := s.top().chain; ch != "" {
			name = ch + "/" + name
		}
		goal := Or(freshCond(a[0]), Eq(a[0], Zero), Lt(a[3], Add(a[2], b[2])))
		e.oblige(s, "FRAME", name, "append must not write into a pre-existing backing array", x.Pos(), goal)
	}
	if e.isRepoPtr(st.Elem()) && b[2].K == KInt {
		for i := int64(0); i < b[2].I; i++ {
			v := e.load(s, Place{Prefix: elemKey, Addr: []*Term{b[0], Add(b[1], Int(i))}}, st.Elem())
			e.safe(s, x, "nilelem", Ne(v[0], Zero))
		}
	}
	r := s.newAlloc(e.typeKey(st))
	snap := s.heap.clone()
	s.copies[r.I] = &arrCopy{heap: snap, arr: a[0], off: a[1], oldlen: a[2]}
	newlen := Add(a[2], b[2])
	if b[2].K == KInt {
		for i := int64(0); i < b[2].I; i++ {
			v := e.load(s, Place{Prefix: elemKey, Addr: []*Term{b[0], Add(b[1], Int(i))}}, st.Elem())
			e.store(s, Place{Prefix: elemKey, Addr: []*Term{r, Add(a[2], Int(i))}}, st.Elem(), v)
		}
	} else {
		// symbolic number of appended elements: second read-through segment
		cp := s.copies[r.I]
		cp.arr2, cp.off2, cp.len2 = b[0], b[1], b[2]
	}
	if newlen.K != KInt {
		// lengths stay within int range (allocation would fail otherwise)
		s.assume(Le(Zero, newlen))
	}
	e.bindResult(s, x, Value{r, Zero, newlen, newlen})
}

func (e *Engine) nextVer() int {
	e.havocN++
	return e.havocN
}

// ---------------------------------------------------------------- hooks: FRAME and invariants

// noteWrite: FRAME obligation — in phase-B (generator) code every write must target an object
// allocated by the activation under verification.
func (e *Engine) noteWrite(s *State, in ssa.Instruction, pl Place) {
	if !e.cfg.CheckFrame || !e.curFramed {
		return
	}
	if len(pl.Addr) == 0 {
		// global variable
		name := e.siteName("FRAME", in, "")
		if ch := s.top().chain; ch != "" {
			name = ch + "/" + name
		}
		e.oblige(s, "FRAME", name, "write to global "+pl.Prefix, in.Pos(), False)
		return
	}
	a := pl.Addr[0]
	name := e.siteName("FRAME", in, "")
	if ch := s.top().chain; ch != "" {
		name = ch + "/" + name
	}
	goal := freshCond(a)
	for _, ex := range e.curExcept {
		if ex.fam == "" || strings.HasPrefix(slotFamily(pl.Prefix), ex.fam) || strings.HasPrefix(pl.Prefix, ex.fam) {
			goal = Or(goal, Eq(a, ex.ref))
		}
	}
	e.oblige(s, "FRAME", name, "write target "+pl.Prefix+" must be fresh", in.Pos(), goal)
}

// freshCond: the reference was allocated by the current activation (greater than ALLOC0).
func freshCond(a *Term) *Term {
	if isFreshRef(a) {
		return True
	}
	if isOldRef(a) {
		return False
	}
	if a.isOp("ite") {
		return Ite(a.Args[0], freshCond(a.Args[1]), freshCond(a.Args[2]))
	}
	return App("isfresh", SBool, a)
}

func (e *Engine) afterLoad(s *State, pl Place, t types.Type, v Value) {
	// wf.elems (global invariant): no nil pointer is ever stored into a slice of pointers to
	// repository structs (obligation SAFE:...:nilelem at every append / element store), hence every
	// element read back is non-nil.
	if strings.HasPrefix(pl.Prefix, "elem(") && !strings.Contains(pl.Prefix, ").") && e.isRepoPtr(t) && len(pl.Addr) == 2 {
		s.assume(Ne(v[0], Zero))
	}
	if e.curPhaseB {
		e.assumeTypeInv(s, t, v, pl)
	}
}

func (e *Engine) isRepoPtr(t types.Type) bool {
	_, ok := t.Underlying().(*types.Pointer)
	return ok && e.typeInRepo(t)
}

func (e *Engine) afterAssert(s *State, t types.Type, v Value) {
	if e.curPhaseB {
		e.assumeTypeInv(s, t, v, Place{})
	}
}

func (e *Engine) afterMapLoad(s *State, mt *types.Map, m *Term, k, v Value, has *Term) {
	if e.isRepoPtr(mt.Elem()) {
		// wf.elems for maps: checked at every MapUpdate (SAFE:...:nilelem)
		s.assume(Implies(has, Ne(v[0], Zero)))
	}
	if e.curPhaseB {
		// values of old maps satisfy their type invariants when present
		sub := s.fork()
		sub.assume(has)
		before := len(sub.pc)
		if _, ok := mt.Elem().Underlying().(*types.Pointer); ok && e.typeInRepo(mt.Elem()) && !isFreshRef(m) {
			sub.assume(Ne(v[0], Zero))
		}
		e.assumeTypeInv(sub, mt.Elem(), v, Place{})
		for _, c := range sub.pc[before:] {
			s.assume(Implies(has, c))
		}
	}
}

func typeMentions(t types.Type, name string) bool {
	return strings.Contains(types.TypeString(t, nil), name)
}

// recordCall appends a ghost call event (callee, flattened arguments, flattened results) to the trace.
func (e *Engine) recordCall(s *State, fn *ssa.Function, args []Value, res Value) {
	var flat []*Term
	for _, a := range args {
		flat = append(flat, a...)
	}
	s.trace = append(s.trace, Event{Kind: "call", Note: shortPaths(e.shortFunc(fn)), Args: flat, Res: append([]*Term(nil), res...), Pre: e.pendingPre})
	e.pendingPre = nil
}

var rePathPrefix = regexp.MustCompile(`([A-Za-z0-9_.\-]+/)+`)

// shortPaths drops import-path prefixes: "(*github.com/spf13/cobra.Command).Execute" -> "(*cobra.Command).Execute".
func shortPaths(s string) string { return rePathPrefix.ReplaceAllString(s, "") }

// mutatingExternals: library functions known to write through a slice argument (element order / values).
var mutatingExternals = map[string]bool{
	"sort.Slice": true, "sort.SliceStable": true, "sort.Sort": true, "sort.Stable": true, "sort.Strings": true, "sort.Ints": true, "sort.Float64s": true,
	"slices.Sort": true, "slices.SortFunc": true, "slices.SortStableFunc": true, "slices.Reverse": true, "math/rand.Shuffle": true,
}

// externArgWrites: in a function that may write only its own fresh objects (FRAME), an external that
// is known to mutate its slice argument - or, in the generators, any external without a contract that
// receives a slice / map / pointer to a repository type - must be handed fresh memory only.
func (e *Engine) externArgWrites(s *State, x ssa.CallInstruction, fn *ssa.Function, args []Value) {
	if !e.cfg.CheckFrame || !e.curFramed {
		return
	}
	name := fn.String()
	known := mutatingExternals[name]
	if !known && !e.curPhaseB {
		return
	}
	for i, p := range fn.Params {
		if i >= len(args) {
			break
		}
		var ref *Term
		what := ""
		switch u := p.Type().Underlying().(type) {
		case *types.Slice:
			ref, what = args[i][0], "slice"
			_ = u
		case *types.Map:
			if !known {
				ref, what = args[i][0], "map"
			}
		case *types.Pointer:
			if !known && e.isRepoPtr(p.Type()) {
				ref, what = args[i][0], "pointer"
			}
		case *types.Interface:
			// sort.Slice takes the slice as interface{}: the payload is the slice header box; its array is
			// not visible here, so a mutating external with an interface argument is treated conservatively
			if known {
				ref, what = nil, "interface"
			}
		}
		if what == "" {
			continue
		}
		oname := e.siteName("FRAME", x, "extern-arg")
		if ch := s.top().chain; ch != "" {
			oname = ch + "/" + oname
		}
		goal := False
		if ref != nil {
			goal = Or(freshCond(ref), Eq(ref, Zero))
		} else if i < len(x.Common().Args) {
			// interface argument made from a slice value: look through the MakeInterface
			if mi, ok := x.Common().Args[i].(*ssa.MakeInterface); ok {
				if _, isSlice := mi.X.Type().Underlying().(*types.Slice); isSlice {
					v := e.get(s, mi.X)
					goal = Or(freshCond(v[0]), Eq(v[0], Zero))
				}
			}
		}
		e.oblige(s, "FRAME", oname, fmt.Sprintf("%s may write through its %s argument: it must be handed memory allocated by this activation", e.shortFunc(fn), what), x.Pos(), goal)
	}
}
