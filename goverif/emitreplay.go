package main

// Replay of failed EMIT obligations on the real code.
//
// An EMIT obligation speaks about a symbolic cell (one field of a kind, names and configuration
// symbolic).  Any concrete instance of the cell exhibits a failed predicate, because the predicates
// are statements about the emitter's template.  The replay therefore writes a concrete DSL text for
// the cell, parses it with the real ParseFile, calls the *same emitter function* the obligation is
// about (in-package test injected with go test -overlay) under the option variants the predicate
// needs, and re-evaluates the predicate on the concrete texts.  If the concrete texts show the
// violation the replay is "reproduced" and carries the DSL and the emitted texts.

import (
	"bufio"
	"encoding/json"
	"fmt"
	"os"
	"os/exec"
	"path/filepath"
	"strings"
)

const cellHarness = `package parser

import (
	"encoding/json"
	"fmt"
	"os"
	"path/filepath"
	"sort"
	"strings"
	"testing"

	"github.com/xinchentechnote/fin-protoc/internal/model"
)

var _ = strings.TrimSpace

type goverifCellReq struct {
	ID   string ` + "`json:\"id\"`" + `
	Lang string ` + "`json:\"lang\"`" + `
	Dir  string ` + "`json:\"dir\"`" + `
	DSL  string ` + "`json:\"dsl\"`" + `
}

type goverifCellRes struct {
	ID   string ` + "`json:\"id\"`" + `
	Text string ` + "`json:\"text\"`" + `
	Err  string ` + "`json:\"err\"`" + `
}

func goverifCallEntry(lang, dir string, m *model.BinaryModel, p *model.Packet, f *model.Field) string {
	mf, _ := f.Attr.(*model.MatchFieldAttribute)
	switch lang + ":" + dir {
	case "go:enc":
		return NewGoGenerator(m).generateEncodingCode(p)
	case "go:dec":
		return NewGoGenerator(m).generateDecodingCode(p)
	case "go:member":
		return NewGoGenerator(m).generateStructCode(p)
	case "go:dispatch":
		return NewGoGenerator(m).generateInit(p, mf)
	case "rust:enc":
		return NewRustGenerator(m).EncodeField(p, f)
	case "rust:dec":
		return NewRustGenerator(m).DecodeField(p.Name, f)
	case "rust:dispatch":
		return NewRustGenerator(m).generateMatchFieldEnumCode(p)
	case "java:enc":
		return NewJavaGenerator(m).GenerateEncode(p)
	case "java:dec":
		return NewJavaGenerator(m).GenerateDecode(p)
	case "java:dispatch":
		return NewJavaGenerator(m).GenerateMessageFactory(p, f, mf)
	case "python:enc":
		return NewPythonGenerator(m).generateEncodeMethod(p)
	case "python:dec":
		return NewPythonGenerator(m).generateDecodeMethod(p)
	case "cpp:enc":
		return NewCppGenerator(m).generateEncode(p)
	case "cpp:dec":
		return NewCppGenerator(m).generateDecode(p)
	case "lua:dec":
		return NewLuaWspGenerator(m).generateMainDissector(p)
	case "lua:sub":
		return NewLuaWspGenerator(m).generateSubDissector(p.Name, p)
	case "lua:fielddef":
		return NewLuaWspGenerator(m).generateFieldDefinitionFromPacket(m, p)
	case "go:test":
		return NewGoGenerator(m).generateNewInstance("original", p)
	case "rust:test":
		return NewRustGenerator(m).generateUnitTestCode(p)
	case "java:test":
		return NewJavaGenerator(m).GenerateTestMethod(p)
	case "python:test":
		return NewPythonGenerator(m).generateTestCodeForPacket(p)
	case "cpp:test":
		return NewCppGenerator(m).generateUnitestForPacket(p)
	case "go:testfiles", "python:testfiles", "java:testfiles":
		var out map[string][]byte
		var err error
		switch lang {
		case "go":
			out, err = NewGoGenerator(m).Generate(m)
		case "java":
			out, err = NewJavaGenerator(m).Generate(m)
		default:
			out, err = NewPythonGenerator(m).Generate(m)
		}
		if err != nil {
			panic(err)
		}
		var names []string
		for n := range out {
			if strings.Contains(n, "_test.") || strings.HasSuffix(n, "Test.java") {
				names = append(names, n)
			}
		}
		sort.Strings(names)
		var b strings.Builder
		for _, n := range names {
			b.WriteString("\x00FILE " + n + "\n")
			b.Write(out[n])
		}
		return b.String()
	case "lua:file":
		out, err := NewLuaWspGenerator(m).Generate(m)
		if err != nil {
			panic(err)
		}
		var names []string
		for n := range out {
			names = append(names, n)
		}
		sort.Strings(names)
		var b strings.Builder
		for _, n := range names {
			b.Write(out[n])
		}
		return b.String()
	}
	panic("no entry for " + lang + ":" + dir)
}

func TestGoverifCells(t *testing.T) {
	dir := os.Getenv("GOVERIF_CELLS_DIR")
	if dir == "" {
		t.Skip()
	}
	b, _ := os.ReadFile(filepath.Join(dir, "reqs.json"))
	var reqs []goverifCellReq
	json.Unmarshal(b, &reqs)
	out, _ := os.Create(filepath.Join(dir, "cells.jsonl"))
	defer out.Close()
	null, _ := os.OpenFile(os.DevNull, os.O_WRONLY, 0)
	os.Stdout = null
	for _, r := range reqs {
		res := goverifCellRes{ID: r.ID}
		func() {
			defer func() {
				if x := recover(); x != nil {
					res.Err = fmt.Sprint(x)
				}
			}()
			f := filepath.Join(dir, "cell.tmp")
			os.WriteFile(f, []byte(r.DSL), 0644)
			v, err := ParseFile(f)
			if err != nil {
				res.Err = err.Error()
				return
			}
			m := v.(*model.BinaryModel)
			if len(m.SyntaxErrors) > 0 {
				res.Err = fmt.Sprintf("diagnostics: %v", m.SyntaxErrors[0].Msg)
				return
			}
			p := m.PacketsMap["CellPacket"]
			var fld *model.Field
			if p != nil {
				for _, x := range p.Fields {
					if x.Name == "fieldUnderTest" {
						fld = x
					}
				}
			}
			if fld == nil {
				fld = &model.Field{}
			}
			res.Text = goverifCallEntry(r.Lang, r.Dir, m, p, fld)
		}()
		j, _ := json.Marshal(res)
		out.Write(append(j, '\n'))
	}
}
`

// cellDSL: a concrete DSL text for the cell, with the given option values.
func cellDSL(c emitCell, opts map[string]string) string {
	var o []string
	for _, k := range []string{"LittleEndian", "StringPrefixLenType", "ArrayPrefixLenType", "FixedStringPadChar", "FixedStringPadFromLeft"} {
		if v, ok := opts[k]; ok {
			o = append(o, k+" = "+v+";")
		}
	}
	head := ""
	if len(o) > 0 {
		head = "options { " + strings.Join(o, " ") + " }\n"
	}
	rep := ""
	if c.Repeat {
		rep = "repeat "
	}
	n := "fieldUnderTest"
	var body string
	switch c.Kind {
	case "basic":
		body = rep + c.spelled() + " " + n + ","
	case "order":
		body = c.Typ + " " + n + ", u32 secondField,"
	case "fixed":
		pad := ""
		if c.FieldPad {
			pad = "@leftPad('0') "
		}
		body = pad + rep + "char[6] " + n + ","
	case "dynamic":
		body = rep + "string " + n + ","
	case "object":
		body = rep + "A " + n + ","
	case "inline":
		body = rep + n + " { u16 w, },"
	case "match":
		if c.LenAttr {
			body = "u32 lengthField @lengthOf(" + n + "), "
		}
		third := "B"
		if c.Single {
			third = "A"
		}
		body += "u16 keyField, match keyField as " + n + " { 1 : A, 2 : A, 3 : " + third + ", 4 : A, },"
	case "length":
		body = c.spelled() + " " + n + " @lengthOf(targetField), u8 targetField,"
	case "checksum":
		body = c.spelled() + " " + n + " @calculatedFrom(\"crc\"),"
	case "empty":
		body = ""
	}
	return head + "root packet CellPacket { " + body + " }\npacket A { u8 a, }\npacket B { u8 b, }\n"
}

type cellReq struct {
	ID   string `json:"id"`
	Lang string `json:"lang"`
	Dir  string `json:"dir"`
	DSL  string `json:"dsl"`
}

type cellRes struct {
	ID   string `json:"id"`
	Text string `json:"text"`
	Err  string `json:"err"`
}

// runCells: the real emitter on each request (one subprocess).
func runCells(reqs []cellReq) (map[string]cellRes, error) {
	dir, err := os.MkdirTemp("/var/tmp", "goverif-cells-")
	if err != nil {
		return nil, err
	}
	defer os.RemoveAll(dir)
	b, _ := json.Marshal(reqs)
	os.WriteFile(filepath.Join(dir, "reqs.json"), b, 0644)
	h := filepath.Join(dir, "zz_goverif_cells_test.go")
	os.WriteFile(h, []byte(cellHarness), 0644)
	ov := map[string]interface{}{"Replace": map[string]string{filepath.Join(repoRoot, "internal/parser/zz_goverif_cells_test.go"): h}}
	ovb, _ := json.Marshal(ov)
	ovf := filepath.Join(dir, "overlay.json")
	os.WriteFile(ovf, ovb, 0644)
	cmd := exec.Command("go", "test", "-overlay", ovf, "-vet=off", "-count=1", "-timeout", "120s", "-run", "^TestGoverifCells$", "./internal/parser/")
	cmd.Dir = repoRoot
	cmd.Env = append(os.Environ(), "GOVERIF_CELLS_DIR="+dir, "GOFLAGS=-mod=mod", "GOPROXY=off")
	outb, err := cmd.CombinedOutput()
	f, ferr := os.Open(filepath.Join(dir, "cells.jsonl"))
	if ferr != nil {
		return nil, fmt.Errorf("cell harness did not run: %v\n%s", err, truncate(string(outb), 1500))
	}
	defer f.Close()
	res := map[string]cellRes{}
	sc := bufio.NewScanner(f)
	sc.Buffer(make([]byte, 1<<20), 1<<24)
	for sc.Scan() {
		var r cellRes
		if json.Unmarshal(sc.Bytes(), &r) == nil {
			res[r.ID] = r
		}
	}
	return res, nil
}

func words(s string) []string {
	var out []string
	cur := ""
	for _, r := range s {
		if r == '_' || r >= '0' && r <= '9' || r >= 'a' && r <= 'z' || r >= 'A' && r <= 'Z' {
			cur += string(r)
			continue
		}
		if cur != "" {
			out = append(out, cur)
			cur = ""
		}
	}
	if cur != "" {
		out = append(out, cur)
	}
	return out
}

// replayEmit: try to show the failed predicate on concrete texts of the real emitter.
func replayEmit(o emitObl, runs []emitRun) map[string]interface{} {
	parts := strings.Split(o.Name, ":")
	if len(parts) < 5 || parts[0] != "EMIT" {
		return nil
	}
	lang, dir, pred := parts[1], parts[2], parts[len(parts)-1]
	cellID := strings.Join(parts[3:len(parts)-1], ":")
	var cell *emitCell
	for i := range runs {
		if runs[i].cell.ID == cellID {
			cell = &runs[i].cell
			break
		}
	}
	if cell == nil || dir == "sym" {
		return nil
	}
	variant := func(kv ...string) map[string]string {
		m := map[string]string{}
		for i := 0; i+1 < len(kv); i += 2 {
			m[kv[i]] = kv[i+1]
		}
		return m
	}
	type vr struct {
		name string
		opts map[string]string
	}
	vs := []vr{{"base", variant("LittleEndian", "false")}, {"le", variant("LittleEndian", "true")},
		{"list8", variant("LittleEndian", "false", "ArrayPrefixLenType", "u8")}, {"list32", variant("LittleEndian", "false", "ArrayPrefixLenType", "u32")},
		{"str8", variant("LittleEndian", "false", "StringPrefixLenType", "u8")}, {"str32", variant("LittleEndian", "false", "StringPrefixLenType", "u32")},
		{"pad0", variant("LittleEndian", "false", "FixedStringPadChar", "'0'", "FixedStringPadFromLeft", "true")}}
	var reqs []cellReq
	for _, v := range vs {
		reqs = append(reqs, cellReq{ID: v.name, Lang: lang, Dir: dir, DSL: cellDSL(*cell, v.opts)})
	}
	if pred == "defines" {
		reqs = append(reqs, cellReq{ID: "dissector", Lang: lang, Dir: "dec", DSL: cellDSL(*cell, vs[0].opts)})
	}
	res, err := runCells(reqs)
	if err != nil {
		return map[string]interface{}{"reproduced": false, "note": err.Error()}
	}
	for _, v := range vs {
		if r := res[v.name]; r.Err != "" || r.Text == "" && pred != "name" {
			return map[string]interface{}{"reproduced": false, "note": "the real emitter could not be run on the concrete cell (" + v.name + "): " + r.Err, "input": reqs[0].DSL}
		}
	}
	t := func(n string) string { return res[n].Text }
	differs := func(a, b string) bool { return t(a) != t(b) }
	rep := map[string]interface{}{"input": cellDSL(*cell, vs[0].opts), "entry": fmt.Sprintf("%s emitter, direction %s (real code, go test -overlay)", lang, dir)}
	show := func(names ...string) {
		m := map[string]string{}
		for _, n := range names {
			m[n] = truncate(t(n), 3000)
		}
		rep["emitted"] = m
	}
	reproduced, observed := false, ""
	_, _, leMust, leMustNot := expectedDeps(*cell, dir)
	switch pred {
	case "name":
		txt := strings.ToLower(t("base"))
		if !strings.Contains(txt, "fieldundertest") && !strings.Contains(txt, "field_under_test") {
			reproduced, observed = true, "the emitted text never mentions the field"
		}
		show("base")
	case "marker":
		lt := strings.ToLower(t("base"))
		for _, w := range markerWords {
			if strings.Contains(lt, w) {
				reproduced, observed = true, "the emitted text contains the placeholder \""+w+"\""
			}
		}
		show("base")
	case "le":
		d := differs("base", "le")
		if leMust && !d {
			reproduced, observed = true, "the emitted text is identical for LittleEndian = false and true"
		}
		if leMustNot && d {
			reproduced, observed = true, "the emitted text differs between LittleEndian = false and true although the step is byte-order neutral"
		}
		show("base", "le")
	case "le-sites":
		wf, wt := words(t("base")), words(t("le"))
		if len(wf) == len(wt) {
			total, repl := map[string]int{}, map[string]int{}
			for i := range wf {
				total[wf[i]]++
				if wt[i] != wf[i] {
					repl[wf[i]]++
				}
			}
			for w, n := range repl {
				if n < total[w] {
					reproduced, observed = true, fmt.Sprintf("%q of the big-endian text is replaced at %d of its %d positions in the little-endian text", w, n, total[w])
				}
			}
		}
		show("base", "le")
	case "backpatch-le":
		lf, lt := strings.Split(t("base"), "\n"), strings.Split(t("le"), "\n")
		if len(lf) == len(lt) {
			last := -1
			for i, l := range lf {
				ll := strings.ToLower(l)
				if strings.Contains(ll, "lengthfield") || strings.Contains(ll, "length_field") {
					last = i
				}
			}
			if last >= 0 && lf[last] == lt[last] {
				reproduced, observed = true, "the back-patch line is the same for both byte orders: "+strings.TrimSpace(lf[last])
			}
		}
		show("base", "le")
	case "dep":
		must, mustNot, _, _ := expectedDeps(*cell, dir)
		has := func(l []string, x string) bool {
			for _, y := range l {
				if y == x {
					return true
				}
			}
			return false
		}
		var notes []string
		if has(must, "ListPrefix") && !differs("list8", "list32") {
			notes = append(notes, "the text does not change with ArrayPrefixLenType (u8 / u32) although the step has an array length prefix")
		}
		if has(mustNot, "ListPrefix") && differs("list8", "list32") {
			notes = append(notes, "the text changes with ArrayPrefixLenType although the step has no array length prefix")
		}
		if has(must, "StrPrefix") && !differs("str8", "str32") {
			notes = append(notes, "the text does not change with StringPrefixLenType (u8 / u32) although the step has a string length prefix")
		}
		if has(mustNot, "StrPrefix") && differs("str8", "str32") {
			notes = append(notes, "the text changes with StringPrefixLenType although the step has no string length prefix")
		}
		if cell.Kind == "fixed" && lang != "lua" {
			if cell.FieldPad && differs("base", "pad0") {
				notes = append(notes, "the text changes with the configured padding although the field has its own padding attribute")
			}
			if !cell.FieldPad && !differs("base", "pad0") {
				notes = append(notes, "the text does not change with the configured padding although the field has no padding attribute")
			}
		} else if has(mustNot, "CfgPad") && differs("base", "pad0") {
			notes = append(notes, "the text changes with the configured padding although the step is not a fixed string")
		}
		if len(notes) > 0 {
			reproduced, observed = true, strings.Join(notes, "; ")
		}
		show("base", "list8", "list32", "str8", "str32", "pad0")
	case "order":
		txt := strings.ToLower(t("base"))
		idx := func(a, b string) int {
			i, j := strings.Index(txt, a), strings.Index(txt, b)
			if i < 0 || (j >= 0 && j < i) {
				return j
			}
			return i
		}
		i, j := idx("fieldundertest", "field_under_test"), idx("secondfield", "second_field")
		if i < 0 || j < 0 || j < i {
			reproduced, observed = true, fmt.Sprintf("first mention of the first field at offset %d, of the second field at offset %d", i, j)
		}
		show("base")
	case "pair":
		txt := t("base")
		for _, k := range []string{"1", "2", "3", "4"} {
			if !strings.Contains(txt, k) {
				reproduced, observed = true, "key "+k+" of the match table does not occur in the dispatch code"
			}
		}
		show("base")
	case "key-compared":
		for _, k := range []string{"1", "2", "3", "4"} {
			if !strings.Contains(t("base"), "== "+k+" ") && !strings.Contains(t("base"), "== "+k+"\n") {
				reproduced, observed = true, "key "+k+" is never the right-hand side of a comparison with the key variable"
			}
		}
		show("base")
	case "sample":
		txt := strings.ToLower(t("base"))
		if !strings.Contains(txt, "fieldundertest") && !strings.Contains(txt, "field_under_test") {
			reproduced, observed = true, "the sample message of the emitted test never mentions the member"
		}
		show("base")
	case "repeat-shape":
		single := *cell
		single.Repeat = false
		r2, err := runCells([]cellReq{{ID: "single", Lang: lang, Dir: dir, DSL: cellDSL(single, vs[0].opts)}})
		if err == nil && r2["single"].Err == "" && r2["single"].Text == t("base") {
			reproduced, observed = true, "the emitted test text is identical for the repeated member and for the same member unrepeated: the sample is not a collection"
		}
		show("base")
	case "sized":
		// char[6] in the concrete cell: the sample literal must have six characters
		ok6 := false
		for _, q := range []string{"\"xxxxxx\"", "\"111111\"", "\"aaaaaa\""} {
			if strings.Contains(t("base"), q) {
				ok6 = true
			}
		}
		if !ok6 && !strings.Contains(t("base"), "6") {
			reproduced, observed = true, "no six-character sample literal (and no use of the length 6) for the char[6] member"
		}
		show("base")
	case "advance", "nested", "scope", "returns", "inline-defined":
		var l []string
		if pred == "returns" {
			l = luaReturnsIssues(t("base"))
		} else if pred == "inline-defined" {
			for _, d := range analyseLua(t("base")).Issues["defined"] {
				if strings.Contains(d, "field_under_test") {
					l = append(l, d)
				}
			}
		} else {
			l = analyseLua(t("base")).Issues[pred]
		}
		if len(l) > 0 {
			reproduced, observed = true, strings.Join(l, " | ")
		}
		show("base")
	case "width":
		var l []string
		for _, v := range []struct {
			n  string
			cb luaCombo
		}{{"base", luaCombo{"u16", "u16", false}}, {"le", luaCombo{"u16", "u16", true}}, {"list8", luaCombo{"u16", "u8", false}}, {"list32", luaCombo{"u16", "u32", false}}, {"str8", luaCombo{"u8", "u16", false}}, {"str32", luaCombo{"u32", "u16", false}}} {
			for _, x := range luaWidthIssues(analyseLua(t(v.n)), *cell, v.cb, "field_under_test", "6") {
				l = append(l, "["+v.n+"] "+x)
			}
		}
		if len(l) > 0 {
			reproduced, observed = true, truncate(strings.Join(l, " | "), 1500)
		}
		show("base", "le", "list8", "list32", "str8", "str32")
	case "defines":
		defined := luaProtoFieldKeys(t("base"))
		for _, r := range analyseLua(res["dissector"].Text).Reads {
			if r.Kind == "display" && !strings.HasPrefix(r.Function, "dissect_") {
				if k := strings.TrimPrefix(r.Target, "fields."); !defined[k] {
					reproduced, observed = true, "the dissector displays fields."+k+", which the field definitions do not define"
				}
			}
		}
		rep["emitted"] = map[string]string{"field definitions": truncate(t("base"), 3000), "dissector": truncate(res["dissector"].Text, 3000)}
	case "variants":
		txt := t("base")
		wantB := 1
		if cell.Single {
			wantB = 0
		}
		if strings.Count(txt, "A(A)") != 1 || strings.Count(txt, "B(B)") != wantB {
			reproduced, observed = true, fmt.Sprintf("the payload enum declares A %d times and B %d times", strings.Count(txt, "A(A)"), strings.Count(txt, "B(B)"))
		}
		show("base")
	default:
		return nil
	}
	rep["reproduced"] = reproduced
	if reproduced {
		rep["observed"] = observed
	} else {
		rep["note"] = "the concrete instance of the cell does not show the failed predicate"
	}
	return rep
}
