package main

// C17: obligations on the emitters of the unit tests that accompany every codec.
//
// What a foreign test runner says about the emitted test is out of reach; what the Go emitters decide
// is which members the sample message gets and from what their values are built.  Per cell:
//
//   sample  the member under test is given a value in the sample message on every path (payload-carrying
//           kinds only: scalars, strings, nested and inline packets, match payloads, and their repeated
//           forms; length and checksum members may be left to the codec)
//   marker  no placeholder / "unsupported" text in the emitted test
//   sized   the sample value of a char[n] member is built from the declared n (a sample of another
//           size does not survive the padded round trip)

import (
	"fmt"
	"go/parser"
	"go/token"
	"go/types"
	"os"
	"os/exec"
	"path/filepath"
	"regexp"
	"sort"
	"strings"
)

func testCellObligations(base string, r emitRun) []emitObl {
	props := []string{"C17"}
	var out []emitObl
	sampleOK, markerOK, sizedOK := true, true, true
	hit := ""
	for _, p := range r.paths {
		ss := symsOf(p.text)
		if !ss["in.f.Name"] && !(r.cell.Kind == "inline" && ss["in.inl.Name"]) {
			sampleOK = false
		}
		lt := strings.ToLower(literalText(p.text))
		for _, w := range markerWords {
			if strings.Contains(lt, w) {
				markerOK = false
				hit = w
			}
		}
		if r.cell.Kind == "fixed" && !ss["in.f.Length"] {
			sizedOK = false
		}
	}
	switch r.cell.Kind {
	case "basic", "order", "fixed", "dynamic", "object", "inline", "match":
		out = append(out, emitObl{Name: base + ":sample", Props: props, OK: sampleOK, Detail: "the sample message of the emitted test gives the member a value on every path"})
	}
	out = append(out, emitObl{Name: base + ":marker", Props: props, OK: markerOK, Detail: "placeholder / unsupported marker in the emitted test: " + hit})
	if r.cell.Kind == "fixed" {
		out = append(out, emitObl{Name: base + ":sized", Props: props, OK: sizedOK, Detail: "the sample value of a char[n] member is built from the declared length"})
	}
	return out
}

// ---------------------------------------------------------------- bounded: syntax of emitted test files

// testPrograms: enumerated program shapes for the emitted unit tests (Go and Python test files of the
// real generators are parsed with go/parser and python3's ast).
func testPrograms() []luaProgram {
	ps := []luaProgram{
		{"scalars-and-strings", "root packet R { u8 a, i16 b, u32 c, i64 d, f32 e, f64 f, string s, char[4] t, }\n"},
		{"repeats", "packet Item { u8 b, string s, }\nroot packet R { repeat Item items, repeat string names, repeat u16 nums, repeat char[3] codes, u64 tail, }\n"},
		{"nested-objects", "packet C { u8 c, }\npacket B { C c, }\npacket A { B b, }\nroot packet R { A a, u8 t, }\n"},
		{"inline-two-levels", "root packet R { u8 h, outer { u16 x, inner { u32 y, char[4] z, }, }, u8 t, }\n"},
		{"match-with-trailer", "root packet R { u16 kind, u32 len @lengthOf(body), match kind as body { 1 : A, 2 : B, }, u32 sum @calculatedFrom(\"crc\"), }\npacket A { u8 a, }\npacket B { repeat u16 b, string s, }\n"},
		{"match-in-nested", "packet A { u8 a, }\npacket B { string s, }\npacket Body { u16 kind, match kind as payload { 1 : A, 2 : B, }, }\nroot packet R { Body b, u32 checksum, }\n"},
		{"match-alternative-with-members", "packet Leaf { u8 v, }\npacket A { Leaf l, repeat Leaf ls, inner { u16 w, }, }\npacket B { u8 b, }\nroot packet R { u16 kind, match kind as body { 1 : A, 2 : B, }, u8 t, }\n"},
		{"inline-then-object", "packet Trailer { u8 t, }\npacket Price { u32 p, }\nroot packet R { repeat Leg { u32 qty, }, Trailer trailer, Side { u8 flag, Price px, }, }\n"},
		{"packet-names-not-upper-camel", "packet order_msg { u8 a, }\npacket newOrder { order_msg m, u16 q, }\nroot packet frame { newOrder o, u8 t, }\n"},
		{"options", "options { LittleEndian = true; ArrayPrefixLenType = u32; StringPrefixLenType = u8; GoPackage = \"pkt\"; GoModule = \"example.com/pkt\"; }\npacket Item { u8 b, }\nroot packet R { repeat Item items, string s, }\n"},
	}
	return ps
}

// testFileObligations: bounded, never counted as proved.
func testFileObligations() []emitObl {
	props := []string{"C17"}
	var reqs []cellReq
	for _, p := range testPrograms() {
		reqs = append(reqs, cellReq{ID: "go/" + p.Name, Lang: "go", Dir: "testfiles", DSL: p.DSL}, cellReq{ID: "python/" + p.Name, Lang: "python", Dir: "testfiles", DSL: p.DSL},
			cellReq{ID: "java/" + p.Name, Lang: "java", Dir: "testfiles", DSL: p.DSL})
	}
	res, err := runCells(reqs)
	if err != nil {
		return []emitObl{{Name: "BOUNDED:C17:testfiles:harness", Props: props, OK: false, Detail: err.Error()}}
	}
	tmp, _ := os.MkdirTemp("/var/tmp", "goverif-py-")
	defer os.RemoveAll(tmp)
	var out []emitObl
	_, pyErr := exec.LookPath("python3")
	for _, p := range testPrograms() {
		for _, lang := range []string{"go", "python", "java"} {
			name := "BOUNDED:C17:testfiles:" + lang + ":" + p.Name + ":syntax"
			if lang == "java" {
				name = "BOUNDED:C17:testfiles:java:" + p.Name + ":file-name"
			}
			if lang == "python" && pyErr != nil {
				// no interpreter to parse with: the case is not run (and says so) rather than reported as a violation
				out = append(out, emitObl{Name: name, Props: props, OK: true, Detail: "NOT RUN: python3 is not on PATH"})
				continue
			}
			r := res[lang+"/"+p.Name]
			if r.Err != "" || r.Text == "" {
				out = append(out, emitObl{Name: name, Props: props, OK: false, Detail: "the real generator could not be run, or emitted no test file: " + r.Err + "\n" + p.DSL})
				continue
			}
			var problems []string
			nfiles := 0
			for _, part := range strings.Split(r.Text, "\x00FILE ")[1:] {
				k := strings.Index(part, "\n")
				fname, src := part[:k], part[k+1:]
				nfiles++
				if lang == "java" {
					// javac: a public top-level class must be declared in a file named after it
					if m := javaPublicClassRe.FindStringSubmatch(src); m != nil {
						if base := strings.TrimSuffix(filepath.Base(fname), ".java"); base != m[1] {
							problems = append(problems, fmt.Sprintf("%s declares `public class %s`: javac requires the file to be named %s.java", fname, m[1], m[1]))
						}
					} else {
						problems = append(problems, fname+": no public class declared")
					}
				} else if lang == "go" {
					f, err := parser.ParseFile(token.NewFileSet(), fname, src, 0)
					if err != nil {
						problems = append(problems, fname+": "+err.Error())
					} else {
						// identifiers the file uses without declaring them (imports and the universe excluded)
						known := map[string]bool{}
						for _, im := range f.Imports {
							if im.Name != nil {
								known[im.Name.Name] = true
							} else {
								pth := strings.Trim(im.Path.Value, "\"")
								known[pth[strings.LastIndex(pth, "/")+1:]] = true
							}
						}
						seen := map[string]bool{}
						for _, id := range f.Unresolved {
							if known[id.Name] || types.Universe.Lookup(id.Name) != nil || seen[id.Name] {
								continue
							}
							seen[id.Name] = true
							problems = append(problems, fname+": identifier `"+id.Name+"` is used but never declared")
						}
					}
				} else {
					f := filepath.Join(tmp, "t.py")
					os.WriteFile(f, []byte(src), 0644)
					c := exec.Command("python3", "-c", pyNamesScript, f)
					if o, err := c.CombinedOutput(); err != nil {
						ls := strings.Split(strings.TrimSpace(string(o)), "\n")
						problems = append(problems, fname+": "+ls[len(ls)-1])
					}
				}
			}
			o := emitObl{Name: name, Props: props, OK: len(problems) == 0, Detail: fmt.Sprintf("%d emitted %s test file(s) checked", nfiles, lang)}
			if len(problems) > 0 {
				o.Detail = "emitted test file is not a syntactically valid program: " + truncate(strings.Join(problems, " | "), 600) + "\ninput:\n" + p.DSL
				o.Replay = map[string]interface{}{"reproduced": true, "input": p.DSL, "entry": lang + " generator Generate on the model ParseFile builds (real code, go test -overlay); test files parsed with go/parser / python3 ast",
					"observed": strings.Join(problems, " | "), "emitted": truncate(r.Text, 6000)}
			}
			out = append(out, o)
		}
	}
	return out
}

// testRepeatObligations: the sample of a repeated member must be a collection, so the text the emitter
// returns for the repeated cell cannot be the text it returns for the same member unrepeated.
var javaPublicClassRe = regexp.MustCompile(`(?m)^public class (\w+)`)

var opaqueIDRe = regexp.MustCompile(`(<ret\.[^>#]*)#[0-9]+`)

func testRepeatObligations(runs []emitRun) []emitObl {
	byID := map[string]*emitRun{}
	for i := range runs {
		if runs[i].entry.Dir == "test" && runs[i].err == "" {
			byID[runs[i].entry.Lang+"|"+runs[i].cell.ID] = &runs[i]
		}
	}
	texts := func(r *emitRun) string {
		var l []string
		for _, p := range r.paths {
			l = append(l, opaqueIDRe.ReplaceAllString(flatText(p.text), "$1")) // results of summarised recursive calls carry a fresh number
		}
		sort.Strings(l)
		return strings.Join(l, "\x00")
	}
	var out []emitObl
	for i := range runs {
		r := &runs[i]
		if r.entry.Dir != "test" || !r.cell.Repeat || r.err != "" || len(r.paths) == 0 {
			continue
		}
		sib := byID[r.entry.Lang+"|"+strings.Replace(r.cell.ID, ":repeat", "", 1)]
		if sib == nil || len(sib.paths) == 0 {
			continue
		}
		same := texts(r) == texts(sib)
		out = append(out, emitObl{Name: fmt.Sprintf("EMIT:%s:test:%s:repeat-shape", r.entry.Lang, r.cell.ID), Props: []string{"C17"}, OK: !same,
			Detail: "the sample of a repeated member is built as a collection: the emitted text must differ from the text for the same member unrepeated"})
	}
	return out
}

// pyNamesScript: the file parses, and every name a function body loads is a parameter, assigned in that
// body, imported / defined at module level, or a builtin.
const pyNamesScript = `
import ast, sys, builtins
src = open(sys.argv[1]).read()
tree = ast.parse(src)
mod = set(dir(builtins))
for n in ast.walk(tree):
    if isinstance(n, (ast.Import, ast.ImportFrom)):
        for a in n.names:
            mod.add((a.asname or a.name).split('.')[0])
            if a.name == '*':
                mod.add('*')
for n in tree.body:
    if isinstance(n, (ast.FunctionDef, ast.ClassDef)):
        mod.add(n.name)
    if isinstance(n, ast.Assign):
        for t in n.targets:
            for x in ast.walk(t):
                if isinstance(x, ast.Name):
                    mod.add(x.id)
bad = []
if '*' not in mod:
    for fn in ast.walk(tree):
        if isinstance(fn, ast.FunctionDef):
            local = {a.arg for a in fn.args.args + fn.args.kwonlyargs}
            for x in ast.walk(fn):
                if isinstance(x, ast.Name) and isinstance(x.ctx, ast.Store):
                    local.add(x.id)
                if isinstance(x, (ast.For, ast.comprehension)):
                    for y in ast.walk(x.target):
                        if isinstance(y, ast.Name):
                            local.add(y.id)
            for x in ast.walk(fn):
                if isinstance(x, ast.Name) and isinstance(x.ctx, ast.Load) and x.id not in local and x.id not in mod:
                    bad.append(x.id)
if bad:
    sys.stderr.write('names used but never bound: ' + ', '.join(sorted(set(bad))))
    sys.exit(1)
`
