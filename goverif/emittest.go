package main

// C17: obligations on the emitters of the unit tests that accompany every codec.
//
// What a foreign test runner says about the emitted test is out of reach; what the Go emitters decide
// is which members the sample message gets and from what their values are built.  Per cell:
//
//   sample  the member under test is given a value in the sample message on every path (payload-carrying
//           kinds only: scalars, strings, nested and inline packets, match payloads, and their repeated
//           forms; length and checksum members may be left to the codec)
//   marker  no placeholder / "unsupported" text in the emitted test
//   sized   the sample value of a char[n] member is built from the declared n (a sample of another
//           size does not survive the padded round trip)

import "strings"

func testCellObligations(base string, r emitRun) []emitObl {
	props := []string{"C17"}
	var out []emitObl
	sampleOK, markerOK, sizedOK := true, true, true
	hit := ""
	for _, p := range r.paths {
		ss := symsOf(p.text)
		if !ss["in.f.Name"] && !(r.cell.Kind == "inline" && ss["in.inl.Name"]) {
			sampleOK = false
		}
		lt := strings.ToLower(literalText(p.text))
		for _, w := range markerWords {
			if strings.Contains(lt, w) {
				markerOK = false
				hit = w
			}
		}
		if r.cell.Kind == "fixed" && !ss["in.f.Length"] {
			sizedOK = false
		}
	}
	switch r.cell.Kind {
	case "basic", "order", "fixed", "dynamic", "object", "inline", "match":
		out = append(out, emitObl{Name: base + ":sample", Props: props, OK: sampleOK, Detail: "the sample message of the emitted test gives the member a value on every path"})
	}
	out = append(out, emitObl{Name: base + ":marker", Props: props, OK: markerOK, Detail: "placeholder / unsupported marker in the emitted test: " + hit})
	if r.cell.Kind == "fixed" {
		out = append(out, emitObl{Name: base + ":sized", Props: props, OK: sizedOK, Detail: "the sample value of a char[n] member is built from the declared length"})
	}
	return out
}
