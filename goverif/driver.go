package main

import (
	"fmt"
	"go/types"
	"os"
	"path/filepath"
	"runtime/debug"
	"sort"
	"strconv"
	"strings"
	"sync"
	"time"

	"golang.org/x/tools/go/packages"
	"golang.org/x/tools/go/ssa"
	"golang.org/x/tools/go/ssa/ssautil"
)

const repoMod = "github.com/xinchentechnote/fin-protoc"

// repoRoot: the tree under verification (GOVERIF_REPO, default /repo).
var repoRoot = envOr("GOVERIF_REPO", "/repo")

func newEngine() *Engine {
	cfg := &packages.Config{Mode: packages.LoadAllSyntax, Dir: repoRoot, BuildFlags: []string{"-tags=verif"}}
	pkgs, err := packages.Load(cfg, "./internal/model", "./internal/parser", "./cmd")
	if err != nil {
		fmt.Fprintln(os.Stderr, "load:", err)
		os.Exit(2)
	}
	if packages.PrintErrors(pkgs) > 0 {
		fmt.Fprintln(os.Stderr, "goverif: the repository does not type-check")
		os.Exit(2)
	}
	prog, _ := ssautil.AllPackages(pkgs, ssa.InstantiateGenerics|ssa.GlobalDebug)
	prog.Build()
	e := &Engine{
		prog:         prog,
		pkgs:         map[string]*ssa.Package{},
		repoPkgs:     map[string]bool{repoMod + "/internal/model": true, repoMod + "/internal/parser": true, repoMod + "/cmd": true},
		layouts:      map[types.Type][]slot{},
		typeIDs:      map[string]int64{},
		typeByID:     map[int64]types.Type{},
		obls:         map[string]*Obligation{},
		assumed:      map[string]bool{},
		siteNames:    map[ssa.Instruction]string{},
		loopInfo:     map[*ssa.Function]*loopAnalysis{},
		globalPlaces: map[string]*Term{},
		arrSpecs:     map[*Term]func(*Term) Value{},
		arrFacts:     map[*Term]func(*State, *Term){},
	}
	for _, p := range prog.AllPackages() {
		e.pkgs[p.Pkg.Path()] = p
	}
	e.tree = loadTreeSpec(repoRoot + "/grammar/PacketDsl.g4")
	dirs := map[string]*types.Package{}
	for path := range e.repoPkgs {
		p := e.pkgs[path]
		if p == nil {
			continue
		}
		dirs[repoRoot+strings.TrimPrefix(path, repoMod)] = p.Pkg
	}
	e.cfg = &Config{MaxPaths: 200000, MaxDepth: 12, Modular: true}
	e.cfg.InScope = func(fn *ssa.Function) bool {
		if fn.Pkg == nil {
			// synthetic wrappers / bound methods have no package: decide by receiver
			if fn.Signature.Recv() != nil {
				return e.typeInRepo(fn.Signature.Recv().Type()) || (grammarCtxName(fn.Signature.Recv().Type()) != "" && fn.Name() == "Accept")
			}
			if fn.Parent() != nil {
				return e.cfg.InScope(fn.Parent())
			}
			return false
		}
		path := fn.Pkg.Pkg.Path()
		if e.repoPkgs[path] {
			return true
		}
		if path == grammarPkg && fn.Name() == "Accept" {
			return true
		}
		return false
	}
	// generator phase ("phase B"): code that consumes a finished model
	e.cfg.PhaseB = func(fn *ssa.Function) bool {
		for fn.Parent() != nil {
			fn = fn.Parent()
		}
		pos := e.prog.Fset.Position(fn.Pos())
		return strings.HasSuffix(pos.Filename, "_generator.go")
	}
	e.contracts = loadContracts(e, dirs)
	return e
}

func (e *Engine) typeInRepo(t types.Type) bool {
	if p, ok := t.(*types.Pointer); ok {
		t = p.Elem()
	}
	n, ok := t.(*types.Named)
	return ok && n.Obj().Pkg() != nil && e.repoPkgs[n.Obj().Pkg().Path()]
}

// runInits executes the package initialisers of model and parser symbolically to obtain
// the initial values of the global tables.
func (e *Engine) runInits() {
	s := &State{heap: Heap{slots: map[string]HeapArr{}, famVer: map[string]int{}, frames: map[string]*frameRec{}, verAlloc: map[int]int{}}, nalloc: new(int), copies: map[int64]*arrCopy{}, allocTy: map[int64]string{}}
	saved := e.cfg
	cfg := *saved
	cfg.Kinds = map[string]bool{}
	cfg.Modular = false
	e.cfg = &cfg
	defer func() { e.cfg = saved }()
	for _, path := range []string{repoMod + "/internal/model", repoMod + "/internal/parser"} {
		p := e.pkgs[path]
		fn := p.Func("init")
		e.curEntry = fn
		fr := &Frame{fn: fn, regs: map[ssa.Value]Value{}, loops: map[*ssa.BasicBlock]*loopEntry{}, block: fn.Blocks[0]}
		s.frames = []*Frame{fr}
		s.sto("global(bool:"+p.Pkg.Name()+".init$guard)", nil, False)
		e.inInit = true
		res := e.runEntry(s)
		e.inInit = false
		if len(res) != 1 {
			panic(fmt.Sprintf("package init of %s has %d paths", path, len(res)))
		}
		s = res[0].st
	}
	s.frames = nil
	s.pc = nil
	e.initHeap = s.heap
	e.initAlloc = *s.nalloc
	initAllocBoundary = int64(e.initAlloc)
	e.initAllocTy = s.allocTy
	e.initCopies = s.copies
}

type FuncReport struct {
	Func     string
	Exits    int
	Paths    int
	Err      string
	Secs     float64
	Contract bool
}

func (e *Engine) newEntryState(fn *ssa.Function) *State {
	s := &State{heap: e.initHeap.clone(), nalloc: new(int), copies: map[int64]*arrCopy{}, allocTy: map[int64]string{}}
	*s.nalloc = e.initAlloc
	for k, v := range e.initCopies {
		s.copies[k] = v
	}
	fr := &Frame{fn: fn, regs: map[ssa.Value]Value{}, loops: map[*ssa.BasicBlock]*loopEntry{}, block: fn.Blocks[0]}
	for _, p := range fn.Params {
		v := e.freshValue(s, p.Type(), "in."+p.Name())
		// tree-typed parameters get their grammar-derived dynamic type
		v = e.treeParam(s, p.Type(), v, fn)
		// a reference passed in denotes an object that existed at entry
		switch p.Type().Underlying().(type) {
		case *types.Pointer, *types.Map, *types.Slice:
			if len(v) > 0 && v[0].S == SInt {
				s.assume(Le(v[0], Sym("ALLOC0", SInt)))
			}
		case *types.Interface:
			if len(v) > 1 && v[1].S == SInt {
				s.assume(Le(v[1], Sym("ALLOC0", SInt)))
			}
		}
		fr.regs[p] = v
		fr.params = append(fr.params, v)
	}
	for _, fv := range fn.FreeVars {
		fr.regs[fv] = e.freshValue(s, fv.Type(), "in.free."+fv.Name())
	}
	s.frames = []*Frame{fr}
	fr.oldHeap = s.heap.clone()
	return s
}

// treeParam: a parameter whose static type is a grammar context pointer is a non-nil tree node;
// an interface parameter annotated `requires tree(x, rule)` is handled by the contract evaluator.
func (e *Engine) treeParam(s *State, t types.Type, v Value, fn *ssa.Function) Value {
	return v
}

// verifyFunction runs one entry function and records its obligations.
func (e *Engine) verifyFunction(fn *ssa.Function) (rep FuncReport) {
	t0 := time.Now()
	rep.Func = e.shortFunc(fn)
	e.curEntry = fn
	e.curPhaseB = e.cfg.PhaseB(fn)
	e.paths = 0
	e.steps = 0
	defer func() {
		rep.Secs = time.Since(t0).Seconds()
		rep.Paths = e.paths
		if r := recover(); r != nil {
			if ee, ok := r.(execError); ok {
				rep.Err = ee.msg
				return
			}
			rep.Err = fmt.Sprintf("internal error: %v\n%s", r, debug.Stack())
		}
	}()
	s := e.newEntryState(fn)
	f := s.top()
	ct := e.contracts.lookup(e, fn)
	if ct != nil {
		rep.Contract = true
		for _, r := range ct.requires {
			s.assume(e.evalSpecBool(s, f, r, nil))
		}
	}
	e.entryAssumptions(s, f)
	e.substituteParamEqualities(s, f)
	e.curFramed = e.curPhaseB || (ct != nil && ct.framed)
	e.curExcept = nil
	if ct != nil {
		for _, ex := range ct.frameExcept {
			env := e.envForFrame(s, f, nil)
			env.pkg = ex.pkg
			e.curExcept = append(e.curExcept, e.evalFrameExc(env, ex))
		}
	}
	// vacuity: the entry assumptions must not be contradictory
	e.vacuity = append(e.vacuity, vacuityProbe{Func: rep.Func, Assumptions: append([]*Term(nil), s.pc...)})
	res := e.runEntry(s)
	for _, r := range res {
		if ct != nil && !ct.trusted {
			e.checkPost(r.st, r.st.frames[0], ct, r.ret, fn.Pos())
		}
		if e.onReturn != nil {
			e.onReturn(fn, r)
		}
	}
	rep.Exits = len(e.exited)
	for _, st := range e.exited {
		if ct != nil && len(st.frames) > 0 {
			for i, ex := range ct.exits {
				g := e.evalSpecBool(st, st.frames[0], ex, nil)
				label := ex.label
				if label == "" {
					label = strconv.Itoa(i)
				}
				e.oblige(st, "POST", fmt.Sprintf("%s#EXIT:%s", e.shortFunc(fn), label), "exits "+ex.text, fn.Pos(), g)
			}
		}
		if e.onExit != nil {
			e.onExit(fn, st)
		}
	}
	e.exited = nil
	return rep
}

type vacuityProbe struct {
	Func        string
	Assumptions []*Term
	Res         SolveResult
}

// ---------------------------------------------------------------- discharge

func (e *Engine) discharge(budget time.Duration, workers int) {
	type job struct {
		o    *Obligation
		inst *OblInstance
	}
	var jobs []job
	for _, name := range e.oblOrder {
		o := e.obls[name]
		for _, in := range o.Instances {
			if in.Closed {
				in.Res = SolveResult{Verdict: "unsat", Backend: "simplifier"}
				continue
			}
			jobs = append(jobs, job{o, in})
		}
	}
	var wg sync.WaitGroup
	ch := make(chan job)
	// queries must be rendered sequentially (term interning is not concurrent); solve in parallel
	type rendered struct {
		j      job
		script string
	}
	rch := make(chan rendered, 64)
	for w := 0; w < workers; w++ {
		wg.Add(1)
		go func() {
			defer wg.Done()
			for r := range rch {
				if e.cfg.CrossCheck {
					r.j.inst.Res = crossSolve(r.script, budget)
				} else {
					r.j.inst.Res = solve(r.script, budget)
				}
				if d := os.Getenv("GOVERIF_DUMP"); d != "" && (r.j.inst.Res.Verdict != "unsat" || os.Getenv("GOVERIF_DUMPALL") != "") {
					os.WriteFile(filepath.Join(d, sanitize(r.j.o.Name)+".smt2"), []byte(r.script), 0644)
				}
			}
		}()
	}
	_ = ch
	for _, j := range jobs {
		rch <- rendered{j, smtQuery(j.inst.Assumptions, j.inst.Goal, j.inst.Marks)}
	}
	close(rch)
	wg.Wait()
	for _, name := range e.oblOrder {
		o := e.obls[name]
		o.Status = "proved"
		backs := map[string]bool{}
		for _, in := range o.Instances {
			o.Secs += in.Res.Secs
			backs[in.Res.Backend] = true
			if in.Res.Verdict != "unsat" {
				o.Status = "failed"
				if o.Fail == nil || (o.Fail.Res.Verdict != "sat" && in.Res.Verdict == "sat") {
					o.Fail = in
				}
			}
		}
		var bs []string
		for b := range backs {
			bs = append(bs, b)
		}
		sort.Strings(bs)
		o.Backend = strings.Join(bs, "+")
	}
}

// substituteParamEqualities: a precondition of the form `param-slot == term` (e.g. the dynamic
// type tag given by treenode(x, rule)) is applied as a substitution on the parameter value so that
// type switches and dynamic dispatch see the constrained tag.
func (e *Engine) substituteParamEqualities(s *State, f *Frame) {
	for _, c := range s.pc {
		if !c.isOp("=") {
			continue
		}
		a, b := c.Args[0], c.Args[1]
		if b.K == KSym && strings.HasPrefix(b.Name, "in.") && !(a.K == KSym && strings.HasPrefix(a.Name, "in.")) {
			a, b = b, a
		}
		if a.K != KSym || !strings.HasPrefix(a.Name, "in.") || !strings.HasSuffix(a.Name, "#tag") {
			continue
		}
		for i, p := range f.fn.Params {
			v := f.params[i]
			for k := range v {
				if v[k] == a {
					nv := append(Value{}, v...)
					nv[k] = b
					f.params[i] = nv
					f.regs[p] = nv
					v = nv
				}
			}
		}
	}
}
