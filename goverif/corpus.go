package main

// Candidate inputs for replay: (1) sentences derived from grammar/PacketDsl.g4 so that every
// alternative and every optional / repeated element is exercised present and absent, (2) fault-class
// templates (duplicates, dangling references, cycles, references inside inline objects, extreme sizes).

import (
	"fmt"
	"strings"
)

type sentGen struct {
	ts    *TreeSpec
	force map[string]int // choice point -> option
	seen  map[string]int // choice point -> number of options
	depth int
	idn   int
}

var identPool = []string{"A", "B", "x", "y", "k", "body"}

func (g *sentGen) token(name string) string {
	switch name {
	case "IDENTIFIER":
		g.idn++
		return identPool[g.idn%len(identPool)]
	case "DIGITS":
		return "4"
	case "STRING":
		return "\"s\""
	case "STRING_LITERAL":
		return "`doc`"
	case "PADDING_CHAR":
		return "'0'"
	case "PADDING_ATTR":
		return "@leftPad"
	}
	r := g.ts.rules[name]
	if r == nil {
		return name
	}
	if lits, ok := g.ts.tokLits[name]; ok && len(lits) > 0 {
		return lits[0]
	}
	// first alternative made of literals
	var sb strings.Builder
	for _, el := range r.alts[0].elems {
		if el.kind == "lit" {
			sb.WriteString(el.name)
		}
	}
	return sb.String()
}

func (g *sentGen) pick(cp string, n int, def int) int {
	g.seen[cp] = n
	if v, ok := g.force[cp]; ok && v < n {
		return v
	}
	if g.depth > 6 {
		return def
	}
	return def
}

func (g *sentGen) elems(rule string, path string, elems []*gElem, out *[]string) {
	for i, el := range elems {
		cp := fmt.Sprintf("%s/%s%d", rule, path, i)
		reps := 1
		switch {
		case el.min == 0 && !el.many: // ?
			reps = g.pick(cp+"?", 2, 1)
			if g.depth > 5 {
				reps = 0
			}
		case el.min == 0 && el.many: // *
			reps = g.pick(cp+"*", 3, 1)
			if g.depth > 5 {
				reps = 0
			}
		case el.many: // +
			reps = 1 + g.pick(cp+"+", 2, 0)
		}
		for r := 0; r < reps; r++ {
			switch el.kind {
			case "lit":
				*out = append(*out, el.name)
			case "token":
				*out = append(*out, g.token(el.name))
			case "rule":
				g.rule(el.name, out)
			case "group":
				a := g.pick(cp+"|", len(el.alts), 0)
				g.elems(rule, fmt.Sprintf("%s%d.%d.", path, i, a), el.alts[a].elems, out)
			}
		}
	}
}

func (g *sentGen) rule(name string, out *[]string) {
	r := g.ts.rules[name]
	g.depth++
	defer func() { g.depth-- }()
	def := 0
	if name == "fieldDefinition" {
		def = 1 // MetaField: simplest self-contained alternative
	}
	a := 0
	if len(r.alts) > 1 {
		a = g.pick(name+"|", len(r.alts), def)
		if g.depth > 5 {
			a = def
		}
	}
	g.elems(name, fmt.Sprintf("%d.", a), r.alts[a].elems, out)
}

func (g *sentGen) sentence() string {
	var toks []string
	g.idn = 0
	g.depth = 0
	g.rule(g.ts.order[0], &toks)
	var sb strings.Builder
	for i, t := range toks {
		if i > 0 {
			sb.WriteString(" ")
		}
		sb.WriteString(t)
	}
	return sb.String()
}

func grammarSentences(ts *TreeSpec) []string {
	base := &sentGen{ts: ts, force: map[string]int{}, seen: map[string]int{}}
	// the start rule is (a|b|c)*: derive one of each first
	var out []string
	seenS := map[string]bool{}
	add := func(s string) {
		if !seenS[s] {
			seenS[s] = true
			out = append(out, s)
		}
	}
	add(base.sentence())
	// discover choice points with a few rounds
	all := map[string]int{}
	frontier := []map[string]int{{}}
	for round := 0; round < 3; round++ {
		var next []map[string]int
		for _, f := range frontier {
			g := &sentGen{ts: ts, force: f, seen: map[string]int{}}
			add(g.sentence())
			for cp, n := range g.seen {
				if _, ok := all[cp]; ok {
					continue
				}
				all[cp] = n
				for k := 0; k < n; k++ {
					nf := map[string]int{}
					for a, b := range f {
						nf[a] = b
					}
					nf[cp] = k
					next = append(next, nf)
				}
			}
		}
		frontier = next
		if len(out) > 600 {
			break
		}
	}
	for _, f := range frontier {
		g := &sentGen{ts: ts, force: f, seen: map[string]int{}}
		add(g.sentence())
		if len(out) > 900 {
			break
		}
	}
	return out
}

var faultTemplates = []string{
	"",
	"// only a comment\n",
	"   \n\t\n",
	"packet P { u8 x, } garbage",
	"packet P { u8 x, }\n// trailing\n",
	"packet P { @leftPad() char[4] x, }",
	"packet P { @rightPad(' ') char[4] x, }",
	"packet P { @leftPad('0') u8 x, }",
	"packet P { @leftPad('0') string x, }",
	"MetaData M { u8 a, }\npacket P { a, }",
	"MetaData M { u8 a `d`, Foo b `e`, }\npacket P { b x, }",
	"MetaData M { u8 a `d`, a b `e`, }\npacket P { b, a x, }",
	"MetaData M { char[4] a `d`, }\npacket P { @leftPad('0') a x, a y, }",
	"root packet P { u16 l @lengthOf(nope), }",
	"root packet P { @lengthOf(nope) u16 l, }",
	"root packet P { u16 l @lengthOf(b), u8 k, match k as b { 1: A, }, }\npacket A { u8 x, }",
	"packet P { u16 l @lengthOf(b), string b, }",
	"root packet P { u16 l @lengthOf(b), u16 m @lengthOf(b), string b, }",
	"root packet P { @calculatedFrom(\"crc\") Foo f, }",
	"root packet P { @lengthOf(x) Foo f, u8 x, }",
	"root packet P { u32 c @calculatedFrom(\"crc\"), }",
	"root packet P { c @calculatedFrom(\"crc\"), }",
	"root packet P { u8 k, match k as b { 1: Nope, }, }",
	"root packet P { match nokey as b { 1: A, }, }\npacket A { u8 x, }",
	"root packet P { u8 k, match k as b { 1: P, }, }",
	"root packet P { A a, }\npacket A { B b, }\npacket B { A a, }",
	"root packet P { P p, }",
	"root packet P { A a, }\npacket A { B b, }\npacket B { C c, }\npacket C { A back, }",
	"packet A { B b, }\npacket B { C c, }\npacket C { D d, }\npacket D { A back, }\nroot packet P { A a, }",
	"root packet P { u8 k, match k as m { 1: A, }, }\npacket A { B b, }\npacket B { u8 j, match j as n { 1: C, }, }\npacket C { A back, }",
	"root packet P { u8 k, match k as b { 1: A, 2: A, 3: B, [4, 5]: B, }, zchar[4] z, char[3] c, }\npacket A { u8 x, }\npacket B { u8 y, }",
	"root packet P { A a, B b, C c, D d, u8 k, match k as m { 1: A, 2: B, 3: C, 4: D, }, In { B b2, C c2, }, }\npacket A { B ab, C ac, D ad, }\npacket B { u8 y, }\npacket C { u8 z, }\npacket D { u8 w, }",
	"root packet P { In { E e, F f, G g, H h, }, }\npacket E { u8 x, }\npacket F { u8 x, }\npacket G { u8 x, }\npacket H { u8 x, }",
	"options { FixedStringPadChar = '\\x00'; }\nroot packet P { char[4] a, @leftPad('\\x00') char[4] b, zchar[2] c, repeat zchar[2] d, }",
	"root packet P { In { P p, }, }",
	"root packet P { A a, }\npacket A { In { P back, }, }",
	"root packet P { In { u8 k, match k as b { 1: P, }, }, }",
	"root packet P { In { In2 { A a, }, }, }\npacket A { In3 { P p, }, }",
	"root packet P { In { A a, }, }\npacket A { u8 x, }",
	"root packet P { In { u8 k, match k as b { 1: A, }, }, }\npacket A { u8 x, }",
	"root packet P { In { In2 { u8 z, }, }, repeat In3 { string s, }, }",
	"packet P { u8 x, }\npacket Q { P p, }",
	"packet P { u8 x, }",
	"root packet P { char[99999999999999999999] big, }",
	"root packet P { char[2147483648] big, }",
	"root packet P { repeat char[0] z, zchar[4] n, }",
	"root packet P { u8 k, match k as b { 1: A, 1: B, [2,3,\"x\"]: A, }, }\npacket A { u8 x, }\npacket B { u8 y, }",
	"root packet P { string k, match k as b { \"a\": A, }, u8 j, match j as c { 1: A, }, }\npacket A { u8 x, }",
	"root packet P { u8 x, u8 x, }",
	"root packet P { u8 x, }\nroot packet Q { u8 y, }",
	"packet P { u8 x, }\npacket P { u8 y, }",
	"options { LittleEndian = true; StringPrefixLenType = u8; ArrayPrefixLenType = u32; FixedStringPadChar = '0'; FixedStringPadFromLeft = true; }\nroot packet P { repeat string s, repeat u16 v, char[3] c, char ch, repeat char chs, f64 d, i64 q, }",
	"options { Bogus = 1; LittleEndian = maybe; LittleEndian = true; LittleEndian = false; }\npacket P { u8 x, }",
	"options { FixedStringPadChar = '\\x00'; JavaPackage = \"a.b\"; GoPackage = \"p\"; GoModule = \"m\"; }\nroot packet P { char[2] c, }",
	"options { }\nMetaData M { }\nroot packet P { }",
	"MetaData M { u8 a `d`, }\nMetaData M { u8 a `d`, }\nroot packet P { a, repeat a as_, }",
	"root packet P { @tag(5) u8 x, @tag(99999999999999999999) u8 y, }",
	"root packet P { @lengthOf(b) repeat u16 l, string b, }",
	"root packet P { repeat A as_, A, }\npacket A { repeat In { repeat u8 v, }, }",
	"root packet P { u8 k, match k as b { [1,2,3,4,5,6,7]: A, }, }\npacket A { }",
	"root packet P { u8 a `multi\nline`, }",
	"packet",
	"packet P {",
	"root root packet P { }",
	"\x00\x01\xff\xfe binary",
	"packet P { u8 x }",
	"packet P { char[ x, }",
	"packet P { match k as { } }",
}

func candidateInputs(e *Engine) []string {
	seen := map[string]bool{}
	var out []string
	add := func(s string) {
		if !seen[s] {
			seen[s] = true
			out = append(out, s)
		}
	}
	for _, t := range faultTemplates {
		add(t)
	}
	prelude := "packet A { u8 a1, }\npacket B { u8 b1, }\n"
	for _, s := range grammarSentences(e.tree) {
		add(s)
		add(prelude + s)
	}
	return out
}
