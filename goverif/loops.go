package main

// Natural loops, static write sets, loop cutting with (auto + written) invariants.

import (
	"fmt"
	"go/token"
	"go/types"
	"sort"
	"strconv"
	"strings"

	"golang.org/x/tools/go/ssa"
)

type loop struct {
	header  *ssa.BasicBlock
	body    map[*ssa.BasicBlock]bool
	latches []*ssa.BasicBlock
	ordinal int
}

type loopAnalysis struct {
	headers map[*ssa.BasicBlock]*loop
}

func (la *loopAnalysis) isBackEdge(from, to *ssa.BasicBlock) bool {
	return to.Dominates(from)
}

func (e *Engine) loops(fn *ssa.Function) *loopAnalysis {
	if la, ok := e.loopInfo[fn]; ok {
		return la
	}
	la := &loopAnalysis{headers: map[*ssa.BasicBlock]*loop{}}
	for _, b := range fn.Blocks {
		for _, succ := range b.Succs {
			if succ.Dominates(b) {
				lp := la.headers[succ]
				if lp == nil {
					lp = &loop{header: succ, body: map[*ssa.BasicBlock]bool{succ: true}}
					la.headers[succ] = lp
				}
				lp.latches = append(lp.latches, b)
				// natural loop body: nodes reaching b without passing header
				stack := []*ssa.BasicBlock{b}
				for len(stack) > 0 {
					n := stack[len(stack)-1]
					stack = stack[:len(stack)-1]
					if lp.body[n] {
						continue
					}
					lp.body[n] = true
					stack = append(stack, n.Preds...)
				}
			}
		}
	}
	var hs []*ssa.BasicBlock
	for h := range la.headers {
		hs = append(hs, h)
	}
	sort.Slice(hs, func(i, j int) bool { return hs[i].Index < hs[j].Index })
	for i, h := range hs {
		la.headers[h].ordinal = i
	}
	e.loopInfo[fn] = la
	return la
}

// ---------------------------------------------------------------- static write sets (slot families)

type writeSet map[string]bool

var writeSetMemo = map[*ssa.Function]writeSet{}
var writeSetBusy = map[*ssa.Function]bool{}

// staticFamilies: slot families a store through pointer value `addr` (of static type *T) may touch.
func (e *Engine) staticFamilies(addr ssa.Value, stored types.Type) []string {
	var fams []string
	addAll := func(prefix string, t types.Type) {
		if a, ok := t.Underlying().(*types.Array); ok {
			for _, sl := range e.layout(a.Elem()) {
				fams = append(fams, slotFamily("elem("+e.typeKey(a.Elem())+")"+sl.Suffix))
			}
			return
		}
		for _, sl := range e.layout(t) {
			fams = append(fams, slotFamily(prefix+sl.Suffix))
		}
	}
	switch a := addr.(type) {
	case *ssa.FieldAddr:
		pt := a.X.Type().Underlying().(*types.Pointer).Elem()
		st := pt.Underlying().(*types.Struct)
		// prefix as the runtime would build it from a whole-object pointer
		base := e.staticPrefix(a.X, pt)
		addAll(base+"."+st.Field(a.Field).Name(), stored)
	case *ssa.IndexAddr:
		switch xt := a.X.Type().Underlying().(type) {
		case *types.Slice:
			addAll("elem("+e.typeKey(xt.Elem())+")", stored)
		case *types.Pointer:
			arr := xt.Elem().Underlying().(*types.Array)
			addAll("elem("+e.typeKey(arr.Elem())+")", stored)
		}
	case *ssa.Global:
		addAll("global("+e.typeKey(a.Type())[1:]+":"+a.Pkg.Pkg.Name()+"."+a.Name()+")", stored)
	default:
		addAll(e.objPrefix(stored), stored)
	}
	return fams
}

func (e *Engine) staticPrefix(v ssa.Value, pointee types.Type) string {
	switch a := v.(type) {
	case *ssa.FieldAddr:
		pt := a.X.Type().Underlying().(*types.Pointer).Elem()
		st := pt.Underlying().(*types.Struct)
		return e.staticPrefix(a.X, pt) + "." + st.Field(a.Field).Name()
	case *ssa.IndexAddr:
		switch xt := a.X.Type().Underlying().(type) {
		case *types.Slice:
			return "elem(" + e.typeKey(xt.Elem()) + ")"
		case *types.Pointer:
			arr := xt.Elem().Underlying().(*types.Array)
			return "elem(" + e.typeKey(arr.Elem()) + ")"
		}
	}
	return e.objPrefix(pointee)
}

// addrRoot follows FieldAddr / IndexAddr-on-array chains to the base pointer.
func addrRoot(v ssa.Value) ssa.Value {
	for {
		switch a := v.(type) {
		case *ssa.FieldAddr:
			v = a.X
		case *ssa.IndexAddr:
			if _, ok := a.X.Type().Underlying().(*types.Pointer); ok {
				v = a.X
			} else {
				return v
			}
		default:
			return v
		}
	}
}

// instrWrites adds the slot families instruction `in` may write. skipLocal(alloc) tells whether
// stores into the object created by that Alloc are invisible to the observer (callee-local
// objects for a call summary; per-iteration objects for a loop).
func (e *Engine) instrWrites(in ssa.Instruction, ws writeSet, skipLocal func(*ssa.Alloc) bool) {
	switch x := in.(type) {
	case *ssa.Store:
		if a, ok := addrRoot(x.Addr).(*ssa.Alloc); ok && skipLocal != nil && skipLocal(a) {
			return
		}
		t := x.Addr.Type().Underlying().(*types.Pointer).Elem()
		for _, f := range e.staticFamilies(x.Addr, t) {
			ws[f] = true
		}
	case *ssa.MapUpdate:
		ws["map("+e.typeKey(x.Map.Type().Underlying())+")"] = true
		ws["map("+e.typeKey(x.Map.Type())+")"] = true
	case ssa.CallInstruction:
		c := x.Common()
		if c.IsInvoke() {
			// dynamic dispatch: union over spec'd effect or repo implementors
			for _, fn := range e.invokeTargets(c) {
				for f := range e.funcWrites(fn) {
					ws[f] = true
				}
			}
			for _, f := range e.externWrites(c.Method.FullName()) {
				ws[f] = true
			}
			return
		}
		if b, ok := c.Value.(*ssa.Builtin); ok {
			_ = b
			return
		}
		if fn := c.StaticCallee(); fn != nil {
			for f := range e.funcWrites(fn) {
				ws[f] = true
			}
			return
		}
		// dynamic function value: closures created in this function
		if mc, ok := c.Value.(*ssa.MakeClosure); ok {
			for f := range e.funcWrites(mc.Fn.(*ssa.Function)) {
				ws[f] = true
			}
			return
		}
		// a function value of unknown origin: any repository function or closure with this signature
		found := false
		for _, cand := range e.funcValueCandidates(c.Signature()) {
			found = true
			for f := range e.funcWrites(cand) {
				ws[f] = true
			}
		}
		if !found {
			ws["*unknown-dynamic-call*"] = true
		}
	}
}

var funcValueMemo map[string][]*ssa.Function

func (e *Engine) funcValueCandidates(sig *types.Signature) []*ssa.Function {
	if funcValueMemo == nil {
		funcValueMemo = map[string][]*ssa.Function{}
		for _, fn := range e.allRepoFunctionsRaw() {
			if fn.Signature.Recv() != nil {
				continue
			}
			k := types.TypeString(fn.Signature, nil)
			funcValueMemo[k] = append(funcValueMemo[k], fn)
		}
	}
	return funcValueMemo[types.TypeString(sig, nil)]
}

func (e *Engine) funcWrites(fn *ssa.Function) writeSet {
	if ws, ok := writeSetMemo[fn]; ok {
		return ws
	}
	if ex := e.externWrites(fn.String()); ex != nil || fn.Blocks == nil || !e.cfg.InScope(fn) {
		ws := writeSet{}
		for _, f := range ex {
			ws[f] = true
		}
		writeSetMemo[fn] = ws
		return ws
	}
	if c := e.contracts.lookup(e, fn); c != nil && c.hasModifies {
		ws := writeSet{}
		for _, f := range c.modifiesFams {
			ws[f] = true
		}
		writeSetMemo[fn] = ws
		return ws
	}
	if writeSetBusy[fn] {
		return writeSet{} // recursion: fixpoint handled by caller iteration
	}
	writeSetBusy[fn] = true
	ws := writeSet{}
	for iter := 0; iter < 3; iter++ {
		before := len(ws)
		for _, b := range fn.Blocks {
			for _, in := range b.Instrs {
				e.instrWrites(in, ws, func(a *ssa.Alloc) bool { return true })
			}
		}
		for _, af := range fn.AnonFuncs {
			for f := range e.funcWrites(af) {
				ws[f] = true
			}
		}
		if len(ws) == before && iter > 0 {
			break
		}
	}
	delete(writeSetBusy, fn)
	writeSetMemo[fn] = ws
	return ws
}

func (e *Engine) loopWrites(lp *loop) []string {
	ws := writeSet{}
	for b := range lp.body {
		for _, in := range b.Instrs {
			e.instrWrites(in, ws, nil)
		}
	}
	var out []string
	for f := range ws {
		out = append(out, f)
	}
	sort.Strings(out)
	return out
}

// loopWritesNonLocal: the families the loop may write through objects that are not allocated inside
// the loop body itself (callee summaries already leave out callee-local objects).
func (e *Engine) loopWritesNonLocal(lp *loop) map[string]bool {
	ws := writeSet{}
	inLoop := func(a *ssa.Alloc) bool { return lp.body[a.Block()] }
	for b := range lp.body {
		for _, in := range b.Instrs {
			e.instrWrites(in, ws, inLoop)
		}
	}
	return ws
}

// ---------------------------------------------------------------- cutting

func (e *Engine) loopKey(fn *ssa.Function, lp *loop) string {
	return fmt.Sprintf("%s#loop%d", e.shortFunc(fn), lp.ordinal)
}

// phiStep: if phi p has the shape [init on entry edges, p + c on back edges] return (c, true).
func phiStep(lp *loop, p *ssa.Phi) (int64, bool) {
	var step int64
	found := false
	for i, pred := range p.Block().Preds {
		if !lp.body[pred] {
			continue
		}
		b, ok := p.Edges[i].(*ssa.BinOp)
		if !ok || (b.Op != token.ADD && b.Op != token.SUB) || b.X != ssa.Value(p) {
			return 0, false
		}
		c, ok := b.Y.(*ssa.Const)
		if !ok || c.Value == nil {
			return 0, false
		}
		v := c.Int64()
		if b.Op == token.SUB {
			v = -v // k-- is k - 1
		}
		if found && v != step {
			return 0, false
		}
		step, found = v, true
	}
	return step, found
}

// unrollable: a compiler-generated slice iteration whose bound is a small constant and that has no
// written invariant is executed iteration by iteration (no cut, no havoc).
func (e *Engine) unrollable(s *State, f *Frame, lp *loop) bool {
	if len(e.contracts.loopInvariants(e, f.fn, lp.ordinal)) > 0 {
		return false
	}
	if e.concreteCounterLoop(s, f, lp) {
		return true
	}
	for _, in := range lp.header.Instrs {
		b, ok := in.(*ssa.BinOp)
		if !ok || b.Op != token.LSS {
			continue
		}
		inc, ok := b.X.(*ssa.BinOp)
		if !ok {
			continue
		}
		p, ok := inc.X.(*ssa.Phi)
		if !ok || p.Comment != "rangeindex" || p.Block() != lp.header {
			continue
		}
		var bound *Term
		if v, ok := f.regs[b.Y]; ok {
			bound = v[0]
		} else if c, ok := b.Y.(*ssa.Const); ok {
			bound = e.constValue(c)[0]
		}
		if bound != nil && bound.K == KInt && bound.I <= 8 {
			return true
		}
	}
	return false
}

func (e *Engine) cutLoop(s *State, f *Frame, lp *loop, from *ssa.BasicBlock) {
	key := e.loopKey(f.fn, lp)
	// 1. invariant on entry
	e.checkLoopInvariant(s, f, lp, from, true)
	// 2. havoc
	e.havocN++
	ver := e.havocN
	entry := &loopEntry{heapAtEntry: s.heap.clone(), phis: map[*ssa.Phi]Value{}}
	builderFam := "strings.Builder"
	type bstate struct {
		addr []*Term
		old  *Term
	}
	var builders []bstate
	fams := e.loopWrites(lp)
	nonLocal := e.loopWritesNonLocal(lp)
	var wmPre *Term
	for _, fam := range fams {
		if fam == "*unknown-dynamic-call*" {
			e.fail("%s: loop calls an unknown dynamic function; write set unknown", key)
		}
		if fam == builderFam || fam == "bytes.Buffer" {
			// append-only accumulators: content after = content before ++ (loop output)
			slotName := fam + "#content"
			seen := map[*Term]bool{}
			for n := s.heap.get(slotName).stores; n != nil; n = n.next {
				if len(n.addr) == 1 && !seen[n.addr[0]] {
					seen[n.addr[0]] = true
					builders = append(builders, bstate{n.addr, s.sel(slotName, SStr, n.addr)})
				}
			}
			s.havocFamily(fam, ver)
			for i := len(builders) - 1; i >= 0; i-- {
				b := builders[i]
				s.sto(slotName, b.addr, Concat(b.old, Sym(fmt.Sprintf("hv.loopout.%s#%d.%s", key, ver, b.addr[0]), SStr)))
			}
			builders = nil
			continue
		}
		if e.curFramed && len(s.frames) == 1 {
			s.havocFamilyEntryFramed(fam, ver, e.curExcept, entry.heapAtEntry)
		} else if !nonLocal[fam] {
			// every write of the loop to this family goes through an object allocated inside the loop
			// body (a copied range element, a composite literal): objects that existed when the loop was
			// entered keep their values
			if wmPre == nil {
				wmPre = Sym(e.freshName("wmpreloop"), SInt)
				if *s.nalloc > int(initAllocBoundary) {
					s.assume(Le(Alloc(*s.nalloc-1), wmPre))
				}
				if n := len(s.marks); n > 0 {
					s.assume(Le(s.marks[n-1].wmpost, wmPre))
				}
				s.assume(Le(Sym("ALLOC0", SInt), wmPre))
			}
			s.havocFamilyFramed(fam, ver, wmPre, nil, entry.heapAtEntry)
		} else {
			s.havocFamily(fam, ver)
		}
	}
	var initVals = map[*ssa.Phi]Value{}
	for _, in := range lp.header.Instrs {
		p, ok := in.(*ssa.Phi)
		if !ok {
			break
		}
		for i, pred := range lp.header.Preds {
			if pred == from {
				initVals[p] = e.get(s, p.Edges[i])
			}
		}
	}
	for _, in := range lp.header.Instrs {
		p, ok := in.(*ssa.Phi)
		if !ok {
			break
		}
		// loop-invariant phi (all back-edge inputs are the phi itself): keep value
		invariantPhi := true
		for i, pred := range lp.header.Preds {
			if lp.body[pred] && p.Edges[i] != ssa.Value(p) {
				invariantPhi = false
			}
		}
		if invariantPhi {
			f.regs[p] = initVals[p]
			entry.phis[p] = initVals[p]
			continue
		}
		name := p.Comment
		if name == "" {
			name = p.Name()
		}
		v := e.freshValue(s, p.Type(), fmt.Sprintf("hv.%s.%s#%d", key, name, ver))
		f.regs[p] = v
		entry.phis[p] = v
		// auto invariant for counters
		if step, ok := phiStep(lp, p); ok && len(v) == 1 && v[0].S == SInt {
			init := initVals[p][0]
			if step > 0 {
				s.assume(Le(init, v[0]))
			} else if step < 0 {
				s.assume(Le(v[0], init))
			}
		}
		// a slice variable that is only ever replaced by append(itself, ...) and starts nil or fresh
		// refers to nil or to an array allocated by this activation (append results are fresh arrays)
		if _, isSlice := p.Type().Underlying().(*types.Slice); isSlice && appendOnlyPhi(lp, p) {
			init := initVals[p]
			known := init[0] == Zero || isFreshRef(init[0])
			want := Or(Eq(init[0], Zero), App("isfresh", SBool, init[0]))
			for _, c := range s.pc {
				if c == want {
					known = true
				}
			}
			if known {
				s.assume(Or(Eq(v[0], Zero), App("isfresh", SBool, v[0])))
			}
		}
		// compiler-generated slice iteration: index phi stays below len (entry: -1 < len; back edges pass `idx+1 < len`)
		if p.Comment == "rangeindex" {
			for _, in2 := range lp.header.Instrs {
				if b, ok := in2.(*ssa.BinOp); ok && b.Op == token.LSS {
					if inc, ok := b.X.(*ssa.BinOp); ok && inc.X == ssa.Value(p) {
						if bound, ok := f.regs[b.Y]; ok {
							s.assume(Lt(v[0], bound[0]))
						} else if c, ok := b.Y.(*ssa.Const); ok {
							s.assume(Lt(v[0], e.constValue(c)[0]))
						}
					}
				}
			}
		}
		e.afterHavocPhi(s, f, lp, p, initVals[p], v)
	}
	entry.initVals = initVals
	entry.traceLen = len(s.trace)
	f.loops[lp.header] = entry
	// allocation state at the start of an arbitrary iteration: a fresh watermark above everything
	// allocated so far (earlier iterations allocate too)
	wmL := Sym(e.freshName("wmloop"), SInt)
	s.assume(Le(s.allocTop(), wmL))
	s.marks = append(s.marks, callMark{nAtCall: *s.nalloc, wm: wmL, wmpost: wmL})
	// references held by loop-carried variables were allocated before this iteration started: they
	// cannot coincide with an object allocated later in the iteration
	for p, v := range entry.phis {
		for k, isRef := range e.refSlots(p.Type()) {
			if isRef && k < len(v) && !v[k].IsConst() {
				s.assume(Le(v[k], wmL))
			}
		}
	}
	// 3. assume written invariants
	e.assumeLoopInvariant(s, f, lp)
	// TERM: automatic variant for bounded counters
	e.checkLoopTerm(s, f, lp)
}

// checkLoopTerm: every loop needs a termination argument. Accepted automatically:
// (a) header branches on `c < bound` / `c+1 < bound` where c is a counter phi with positive
// constant step and bound is loop-invariant; (b) loops driven by a map/string iterator (Next).
func (e *Engine) checkLoopTerm(s *State, f *Frame, lp *loop) {
	if e.cfg.Kinds != nil && !e.cfg.Kinds["TERM"] {
		return
	}
	name := e.loopKey(f.fn, lp) + "#TERM"
	if f.chain != "" {
		name = f.chain + "/" + name
	}
	ok := false
	reason := "no automatic variant"
	// find the exit test
	for b := range lp.body {
		if len(b.Instrs) == 0 {
			continue
		}
		br, isIf := b.Instrs[len(b.Instrs)-1].(*ssa.If)
		if !isIf {
			continue
		}
		exits := !lp.body[b.Succs[0]] || !lp.body[b.Succs[1]]
		if !exits {
			continue
		}
		switch c := br.Cond.(type) {
		case *ssa.BinOp:
			if c.Op == token.LSS || c.Op == token.LEQ || c.Op == token.NEQ {
				if e.isCounter(lp, c.X) && e.loopInvariantValue(lp, c.Y) {
					ok = true
				}
			}
			if c.Op == token.GTR || c.Op == token.GEQ {
				if e.isCounter(lp, c.Y) && e.loopInvariantValue(lp, c.X) {
					ok = true
				}
			}
		case *ssa.Extract:
			if _, isNext := c.Tuple.(*ssa.Next); isNext && c.Index == 0 {
				ok = true
				reason = "finite iterator"
			}
		}
	}
	if c := e.contracts.loopDecreases(e, f.fn, lp.ordinal); c != nil {
		// a written variant: its value at the start of the iteration is recorded here and compared
		// on the back edge (checkLoopInvariant): 0 <= V and V' < V
		if le := f.loops[lp.header]; le != nil {
			le.variant = e.evalSpecIntLoop(s, f, c, lp, nil)
		}
		return
	}
	goal := Bool(ok)
	_ = reason
	e.oblige(s, "TERM", name, "loop variant", lp.header.Instrs[0].Pos(), goal)
}

func (e *Engine) isCounter(lp *loop, v ssa.Value) bool {
	if p, ok := v.(*ssa.Phi); ok && p.Block() == lp.header {
		st, ok := phiStep(lp, p)
		return ok && st > 0
	}
	if b, ok := v.(*ssa.BinOp); ok && b.Op == token.ADD {
		if c, ok := b.Y.(*ssa.Const); ok && c.Value != nil {
			return e.isCounter(lp, b.X)
		}
	}
	return false
}

func (e *Engine) loopInvariantValue(lp *loop, v ssa.Value) bool {
	switch x := v.(type) {
	case *ssa.Const, *ssa.Parameter:
		return true
	case ssa.Instruction:
		return !lp.body[x.Block()]
	}
	return false
}

// ---------------------------------------------------------------- written invariants

func (e *Engine) checkLoopInvariant(s *State, f *Frame, lp *loop, from *ssa.BasicBlock, entry bool) {
	if !entry {
		e.checkIterationEnsures(s, f, lp)
	}
	invs := e.contracts.loopInvariants(e, f.fn, lp.ordinal)
	dec := e.contracts.loopDecreases(e, f.fn, lp.ordinal)
	if entry || f.loops[lp.header] == nil || f.loops[lp.header].variant == nil {
		dec = nil
	}
	if len(invs) == 0 && dec == nil {
		return
	}
	// evaluate with header phis bound to the incoming edge values
	saved := map[*ssa.Phi]Value{}
	for _, in := range lp.header.Instrs {
		p, ok := in.(*ssa.Phi)
		if !ok {
			break
		}
		if v, ok := f.regs[p]; ok {
			saved[p] = v
		}
	}
	vals := map[*ssa.Phi]Value{}
	for _, in := range lp.header.Instrs {
		p, ok := in.(*ssa.Phi)
		if !ok {
			break
		}
		for i, pred := range lp.header.Preds {
			if pred == from {
				vals[p] = e.get(s, p.Edges[i])
			}
		}
	}
	for p, v := range vals {
		f.regs[p] = v
	}
	which := "back"
	if entry {
		which = "entry"
	}
	for i, inv := range invs {
		g := e.evalSpecBoolLoop(s, f, inv, lp, vals, entry)
		name := fmt.Sprintf("%s#INV:%d:%s", e.loopKey(f.fn, lp), i, which)
		if f.chain != "" {
			name = f.chain + "/" + name
		}
		e.oblige(s, "INV", name, inv.text, lp.header.Instrs[0].Pos(), g)
	}
	if dec != nil {
		v0 := f.loops[lp.header].variant
		v1 := e.evalSpecIntLoop(s, f, dec, lp, vals)
		name := e.loopKey(f.fn, lp) + "#TERM"
		if f.chain != "" {
			name = f.chain + "/" + name
		}
		e.oblige(s, "TERM", name, "loop variant "+dec.text+" is non-negative and decreases", lp.header.Instrs[0].Pos(), And(Le(Zero, v0), Lt(v1, v0)))
	}
	for _, in := range lp.header.Instrs {
		p, ok := in.(*ssa.Phi)
		if !ok {
			break
		}
		if v, ok := saved[p]; ok {
			f.regs[p] = v
		} else {
			delete(f.regs, p)
		}
	}
}

func (e *Engine) assumeLoopInvariant(s *State, f *Frame, lp *loop) {
	for _, inv := range e.contracts.loopInvariants(e, f.fn, lp.ordinal) {
		s.assume(e.evalSpecBoolLoop(s, f, inv, lp, nil, false))
	}
}

// evalSpecBoolLoop evaluates a loop invariant; entry(e) inside it refers to the state at loop entry
// (header phis at their initial values, heap as it was when the loop was entered).
func (e *Engine) evalSpecBoolLoop(s *State, f *Frame, x *specExpr, lp *loop, incoming map[*ssa.Phi]Value, atEntry bool) *Term {
	env := e.envForFrame(s, f, nil)
	env.pkg = x.pkg
	le := f.loops[lp.header]
	sub := &specEnv{vars: map[string]specVal{}, heap: s.heap, pkg: x.pkg, s: s}
	for k, v := range env.vars {
		sub.vars[k] = v
	}
	var init map[*ssa.Phi]Value
	if le != nil {
		sub.heap = le.heapAtEntry
		init = le.initVals
	} else if atEntry {
		init = incoming // first entry: the incoming values are the initial values
	}
	for p, v := range init {
		if p.Comment != "" {
			sub.vars[p.Comment] = specVal{v, p.Type()}
		}
	}
	env.entryEnv = sub
	// the names of this loop's own header phis win over like-named phis of other loops (every
	// compiler-generated range loop has a phi called rangeindex)
	for _, in := range lp.header.Instrs {
		p, ok := in.(*ssa.Phi)
		if !ok {
			break
		}
		if v, ok := f.regs[p]; ok && p.Comment != "" {
			env.vars[p.Comment] = specVal{v, p.Type()}
		}
	}
	r := e.evalSpec(env, x.ast)
	if len(r.v) != 1 || r.v[0].S != SBool {
		e.fail("loop invariant %q is not boolean", x.text)
	}
	return r.v[0]
}

// evalSpecIntLoop evaluates a written loop variant in the current state (header phis as bound by the caller).
func (e *Engine) evalSpecIntLoop(s *State, f *Frame, x *specExpr, lp *loop, incoming map[*ssa.Phi]Value) *Term {
	env := e.envForFrame(s, f, nil)
	env.pkg = x.pkg
	r := e.evalSpec(env, x.ast)
	if len(r.v) != 1 || r.v[0].S != SInt {
		e.fail("loop variant %q is not an integer", x.text)
	}
	return r.v[0]
}

// afterHavocPhi: type-directed facts that survive a havoc (slices of non-nil tree nodes etc.)
func (e *Engine) afterHavocPhi(s *State, f *Frame, lp *loop, p *ssa.Phi, init, v Value) {
	// strings: nothing. slices: typing already assumed.
	_ = strings.HasPrefix
}

// ---------------------------------------------------------------- static call graph (recursion cycles)

var calleesMemo = map[*ssa.Function][]*ssa.Function{}

func (e *Engine) staticCallees(fn *ssa.Function) []*ssa.Function {
	if c, ok := calleesMemo[fn]; ok {
		return c
	}
	seen := map[*ssa.Function]bool{}
	var out []*ssa.Function
	add := func(f *ssa.Function) {
		if f != nil && !seen[f] && f.Blocks != nil && e.cfg.InScope(f) {
			seen[f] = true
			out = append(out, f)
		}
	}
	for _, b := range fn.Blocks {
		for _, in := range b.Instrs {
			switch x := in.(type) {
			case ssa.CallInstruction:
				c := x.Common()
				if c.IsInvoke() {
					for _, t := range e.invokeTargets(c) {
						add(t)
					}
					// visitor double dispatch: Accept calls back Visit* of the repo visitors
					if c.Method.Name() == "Accept" {
						want := map[string]bool{}
						if n, ok := c.Value.Type().(*types.Named); ok && strings.HasPrefix(n.Obj().Name(), "I") && strings.HasSuffix(n.Obj().Name(), "Context") {
							rule := strings.TrimSuffix(n.Obj().Name()[1:], "Context")
							want["Visit"+rule] = true
							lower := strings.ToLower(rule[:1]) + rule[1:]
							for _, alt := range e.tree.ruleAlts[lower] {
								want["Visit"+strings.TrimSuffix(alt, "Context")] = true
							}
						}
						for _, t := range e.visitMethods() {
							if len(want) == 0 || want[t.Name()] {
								add(t)
							}
						}
					}
				} else if f := c.StaticCallee(); f != nil {
					add(f)
				}
			case *ssa.MakeClosure:
				add(x.Fn.(*ssa.Function))
			}
		}
	}
	calleesMemo[fn] = out
	return out
}

var visitMethodsMemo []*ssa.Function

func (e *Engine) visitMethods() []*ssa.Function {
	if visitMethodsMemo != nil {
		return visitMethodsMemo
	}
	for _, name := range []string{"PacketDslFormattor", "PacketDslVisitorImpl"} {
		p := e.pkgs[repoMod+"/internal/parser"]
		t := p.Type(name)
		if t == nil {
			continue
		}
		ms := e.prog.MethodSets.MethodSet(types.NewPointer(t.Type()))
		for i := 0; i < ms.Len(); i++ {
			fn := e.prog.MethodValue(ms.At(i))
			if fn != nil && strings.HasPrefix(fn.Name(), "Visit") && fn.Synthetic == "" {
				visitMethodsMemo = append(visitMethodsMemo, fn)
			}
		}
	}
	return visitMethodsMemo
}

var reachMemo = map[[2]*ssa.Function]bool{}

// reaches: can `from` (transitively) call `to`?
func (e *Engine) reaches(from, to *ssa.Function) bool {
	k := [2]*ssa.Function{from, to}
	if r, ok := reachMemo[k]; ok {
		return r
	}
	seen := map[*ssa.Function]bool{}
	stack := []*ssa.Function{from}
	res := false
	for len(stack) > 0 && !res {
		f := stack[len(stack)-1]
		stack = stack[:len(stack)-1]
		for _, c := range e.staticCallees(f) {
			if c == to {
				res = true
				break
			}
			if !seen[c] {
				seen[c] = true
				stack = append(stack, c)
			}
		}
	}
	reachMemo[k] = res
	return res
}

// appendOnlyPhi: every back-edge input of the slice phi is the phi itself or append(<same chain>, ...).
func appendOnlyPhi(lp *loop, p *ssa.Phi) bool {
	visiting := map[ssa.Value]bool{}
	var fromPhi func(v ssa.Value, depth int) bool
	fromPhi = func(v ssa.Value, depth int) bool {
		if depth > 16 {
			return false
		}
		if v == ssa.Value(p) || visiting[v] {
			return true
		}
		switch x := v.(type) {
		case *ssa.Call:
			if b, ok := x.Call.Value.(*ssa.Builtin); ok && b.Name() == "append" {
				return fromPhi(x.Call.Args[0], depth+1)
			}
		case *ssa.Phi:
			visiting[v] = true
			for _, e := range x.Edges {
				if !fromPhi(e, depth+1) {
					return false
				}
			}
			return true
		}
		return false
	}
	for i, pred := range p.Block().Preds {
		if lp.body[pred] && !fromPhi(p.Edges[i], 0) {
			return false
		}
	}
	return true
}

// checkIterationEnsures: at a back edge, the effects of the iteration just completed (trace events
// appended since the loop head) satisfy the loop's iteration-ensures clauses.
func (e *Engine) checkIterationEnsures(s *State, f *Frame, lp *loop) {
	c := e.contracts.lookup(e, f.fn)
	if c == nil || c.loopIter == nil {
		return
	}
	le := f.loops[lp.header]
	if le == nil {
		return
	}
	for i, cl := range c.loopIter[lp.ordinal] {
		env := e.envForFrame(s, f, nil)
		env.pkg = cl.pkg
		env.iterFrom = le.traceLen
		if env.iterFrom == 0 {
			env.iterFrom = -1
		}
		r := e.evalSpec(env, cl.ast)
		label := cl.label
		if label == "" {
			label = strconv.Itoa(i)
		}
		name := fmt.Sprintf("%s#ITER:%s", e.loopKey(f.fn, lp), label)
		if f.chain != "" {
			name = f.chain + "/" + name
		}
		e.oblige(s, "POST", name, "iteration-ensures "+cl.text, lp.header.Instrs[0].Pos(), r.v[0])
	}
}

// refSlots: for each slot of the flattened layout of t, whether it holds an object reference
// (pointer, map, channel, function, slice array, interface payload).
func (e *Engine) refSlots(t types.Type) []bool {
	switch u := t.Underlying().(type) {
	case *types.Pointer, *types.Map, *types.Chan, *types.Signature:
		return []bool{true}
	case *types.Interface:
		return []bool{false, true}
	case *types.Slice:
		return []bool{true, false, false, false}
	case *types.Struct:
		l := e.layout(t)
		if len(l) == 1 && (l[0].Suffix == "#content" || l[0].Suffix == "#opaque") {
			return []bool{false}
		}
		var out []bool
		for i := 0; i < u.NumFields(); i++ {
			out = append(out, e.refSlots(u.Field(i).Type())...)
		}
		return out
	case *types.Array:
		var out []bool
		for i := int64(0); i < u.Len(); i++ {
			out = append(out, e.refSlots(u.Elem())...)
		}
		return out
	}
	return make([]bool, len(e.layout(t)))
}

// concreteCounterLoop: a counter loop written by hand (for i := a; i < b; i++ / for k := n-1; k >= 0; k--)
// whose counter starts at a concrete value, moves by a constant step and is compared with a concrete
// bound, with at most 8 iterations: it is executed iteration by iteration like a range loop over a
// concrete slice.
func (e *Engine) concreteCounterLoop(s *State, f *Frame, lp *loop) bool {
	from := f.block
	for _, in := range lp.header.Instrs {
		b, ok := in.(*ssa.BinOp)
		if !ok {
			continue
		}
		switch b.Op {
		case token.LSS, token.LEQ, token.GTR, token.GEQ:
		default:
			continue
		}
		for _, side := range [][2]ssa.Value{{b.X, b.Y}, {b.Y, b.X}} {
			p, ok := side[0].(*ssa.Phi)
			if !ok || p.Block() != lp.header {
				continue
			}
			step, ok := phiStep(lp, p)
			if !ok || step == 0 {
				continue
			}
			var init *Term
			for i, pred := range lp.header.Preds {
				if pred == from {
					init = e.get(s, p.Edges[i])[0]
				}
			}
			var bound *Term
			if v, ok := f.regs[side[1]]; ok {
				bound = v[0]
			} else if c, ok := side[1].(*ssa.Const); ok {
				bound = e.constValue(c)[0]
			}
			if init == nil || bound == nil || init.K != KInt || bound.K != KInt {
				continue
			}
			d := bound.I - init.I
			if d < 0 {
				d = -d
			}
			if step < 0 {
				step = -step
			}
			if d/step <= 8 {
				return true
			}
		}
	}
	return false
}
