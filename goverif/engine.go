package main

// Symbolic state: values, heap, layouts.

import (
	"fmt"
	"go/types"
	"os"
	"sort"
	"strings"

	"golang.org/x/tools/go/ssa"
)

// Value: a Go value flattened into scalar terms according to layout(type).
type Value []*Term

// maxLen bounds every slice capacity / string length (amd64 address space).
const maxLen = 1 << 48

type slot struct {
	Suffix string
	Sort   Sort
}

type Place struct {
	Prefix string
	Addr   []*Term
}

type storeNode struct {
	addr []*Term
	val  *Term
	next *storeNode
	n    int
}

// HeapArr: one heap "field array": base (a version number: H<ver>.<slot> is an
// uninterpreted function over addresses) plus a chain of stores.
type HeapArr struct {
	ver    int
	stores *storeNode
}

// Heap: slot arrays plus the base version of every slot family (bumped by havoc).
type Heap struct {
	slots    map[string]HeapArr
	famVer   map[string]int
	frames   map[string]*frameRec // family -> frame record of its current base version
	verAlloc map[int]int          // base version -> number of allocations made when it was created
}

// frameRec: the base version `ver` of a family was created by a call whose callee writes only
// objects it allocated itself (plus the objects in `except`): for an object that existed at the
// call, the value is the one in `prev`.
type frameExc struct {
	ref *Term
	fam string // family prefix the exception applies to ("" = any)
}

type frameRec struct {
	ver     int
	wm      *Term // watermark: every object existing at the call is <= wm
	except  []frameExc
	fam     string
	prev    Heap
	nAtCall int
}

type callMark struct {
	nAtCall int
	wm      *Term
	wmpost  *Term
}

func (h Heap) clone() Heap {
	n := Heap{slots: make(map[string]HeapArr, len(h.slots)), famVer: make(map[string]int, len(h.famVer)), frames: make(map[string]*frameRec, len(h.frames)), verAlloc: make(map[int]int, len(h.verAlloc))}
	for k, v := range h.slots {
		n.slots[k] = v
	}
	for k, v := range h.famVer {
		n.famVer[k] = v
	}
	for k, v := range h.frames {
		n.frames[k] = v
	}
	for k, v := range h.verAlloc {
		n.verAlloc[k] = v
	}
	return n
}

func (h Heap) get(slot string) HeapArr {
	if a, ok := h.slots[slot]; ok {
		return a
	}
	return HeapArr{ver: h.famVer[slotFamily(slot)]}
}

// slotFamily maps a runtime slot name to the family used for loop / call havoc:
//
//	"T.f.g#tag"            -> "T.f"          (first field of the innermost named struct)
//	"elem(T).f#x"/"box(T).f" -> "T.f"
//	"elem(T)#x"/"box(T)#x"   -> "elem(T)" / "box(T)"
//	"cell(T)#x"            -> "cell(T)"
//	"mapdom(M)"/"mapval(M)#x"/"maplen(M)" -> "map(M)"
func slotFamily(slot string) string {
	name := slot
	wrapper := ""
	for _, w := range []string{"elem(", "box(", "cell(", "mapdom(", "mapval(", "maplen(", "global("} {
		if strings.HasPrefix(name, w) {
			wrapper = w
			break
		}
	}
	if wrapper != "" {
		// find matching close paren
		depth := 0
		end := -1
		for i := len(wrapper) - 1; i < len(name); i++ {
			if name[i] == '(' {
				depth++
			} else if name[i] == ')' {
				depth--
				if depth == 0 {
					end = i
					break
				}
			}
		}
		inner := name[len(wrapper):end]
		rest := name[end+1:]
		switch wrapper {
		case "mapdom(", "mapval(", "maplen(":
			return "map(" + inner + ")"
		case "global(":
			return "global(" + inner + ")"
		case "cell(":
			return "cell(" + inner + ")"
		}
		if strings.HasPrefix(rest, ".") {
			return inner + firstField(rest)
		}
		return wrapper + inner + ")"
	}
	// "T.f..." where T may contain dots (pkg.Type): family = up to and including the first field
	// slot names for objects are typeKey + (".field")* + suffix; typeKey of a named type is "pkg.Name".
	i := strings.Index(name, ".")
	if i < 0 {
		return stripSuffix(name)
	}
	j := strings.Index(name[i+1:], ".")
	if j < 0 {
		return stripSuffix(name)
	}
	return name[:i+1+j] + firstField(name[i+1+j:])
}

func stripSuffix(s string) string {
	if i := strings.IndexAny(s, "#$"); i >= 0 {
		return s[:i]
	}
	return s
}

// firstField(".f.g#tag") = ".f"
func firstField(rest string) string {
	r := rest[1:]
	if i := strings.IndexAny(r, ".#$["); i >= 0 {
		r = r[:i]
	}
	return "." + r
}

type arrCopy struct {
	heap   Heap
	arr    *Term
	off    *Term
	oldlen *Term
	// optional second segment (append of a slice of symbolic length): elements [oldlen, oldlen+len2)
	arr2, off2, len2 *Term
}

type Frame struct {
	fn         *ssa.Function
	regs       map[ssa.Value]Value
	block      *ssa.BasicBlock
	prev       *ssa.BasicBlock
	idx        int
	loops      map[*ssa.BasicBlock]*loopEntry // loop headers already cut on this path
	call       ssa.CallInstruction            // call site in the caller frame (nil for entry)
	defers     []deferred
	oldHeap    Heap // heap at entry (for old() in contracts)
	params     []Value
	chain      string // inlining chain "f/g/h" used in obligation names
	wm, wmpost *Term
	mapLoops   []*mapLoopInfo
	unrolled   map[*ssa.BasicBlock]bool // loop headers executed by unrolling (constant trip count)
}

type deferred struct {
	call *ssa.Defer
	args []Value
	fn   Value
}

type loopEntry struct {
	traceLen    int
	initVals    map[*ssa.Phi]Value
	heapAtEntry Heap
	phis        map[*ssa.Phi]Value
	variant     *Term // written loop variant at the start of the (arbitrary) iteration
}

type State struct {
	pc      []*Term
	heap    Heap
	frames  []*Frame
	nalloc  *int
	copies  map[int64]*arrCopy
	allocTy map[int64]string // allocation ordinal -> type key (for FRAME / messages)
	trace   []Event          // ghost IO trace
	marks   []callMark       // allocation watermarks of framed calls on this path
	dead    bool
	notes   []string
	depth   int
}

type Event struct {
	Kind string // stdout | writefile | mkdir | create | exit | filewrite | call | impure
	Args []*Term
	Res  []*Term
	Note string
	Pre  *Heap // heap just before a recorded call
}

func (s *State) fork() *State {
	n := &State{pc: append([]*Term(nil), s.pc...), heap: s.heap.clone(), nalloc: new(int), copies: s.copies, allocTy: s.allocTy, depth: s.depth}
	*n.nalloc = *s.nalloc
	n.trace = append([]Event(nil), s.trace...)
	n.marks = append([]callMark(nil), s.marks...)
	n.notes = s.notes
	n.frames = make([]*Frame, len(s.frames))
	for i, f := range s.frames {
		g := *f
		g.regs = make(map[ssa.Value]Value, len(f.regs))
		for k, v := range f.regs {
			g.regs[k] = v
		}
		g.loops = make(map[*ssa.BasicBlock]*loopEntry, len(f.loops))
		for k, v := range f.loops {
			g.loops[k] = v
		}
		g.defers = append([]deferred(nil), f.defers...)
		g.mapLoops = append([]*mapLoopInfo(nil), f.mapLoops...)
		n.frames[i] = &g
	}
	// copies / allocTy are append-only keyed by unique alloc ordinals; sharing is safe
	// as long as ordinals are unique per path prefix: we copy-on-write below.
	nc := make(map[int64]*arrCopy, len(s.copies))
	for k, v := range s.copies {
		nc[k] = v
	}
	n.copies = nc
	na := make(map[int64]string, len(s.allocTy))
	for k, v := range s.allocTy {
		na[k] = v
	}
	n.allocTy = na
	return n
}

func (s *State) top() *Frame { return s.frames[len(s.frames)-1] }

func (s *State) assume(t *Term) {
	if t == True {
		return
	}
	if t == False {
		s.dead = true
		if os.Getenv("GOVERIF_DEBUG_DEAD") != "" && len(s.frames) > 0 {
			f := s.top()
			fmt.Fprintf(os.Stderr, "DEAD in %s block %d idx %d\n", f.fn, f.block.Index, f.idx)
		}
	}
	if t.isOp("and") {
		for _, a := range t.Args {
			s.assume(a)
		}
		return
	}
	for _, p := range s.pc {
		if p == t {
			return
		}
		if p == Not(t) {
			s.dead = true
			if os.Getenv("GOVERIF_DEBUG_DEAD") != "" && len(s.frames) > 0 {
				f := s.top()
				fmt.Fprintf(os.Stderr, "DEAD(contradiction %s) in %s block %d idx %d\n", t, f.fn, f.block.Index, f.idx)
			}
		}
	}
	s.pc = append(s.pc, t)
}

// allocTop: a term that bounds every object allocated so far on this path.
func (s *State) allocTop() *Term {
	last := int(initAllocBoundary)
	var base *Term = Sym("ALLOC0", SInt)
	if n := len(s.marks); n > 0 {
		last = s.marks[n-1].nAtCall
		base = s.marks[n-1].wmpost
	}
	if *s.nalloc > last {
		return Alloc(*s.nalloc - 1)
	}
	return base
}

func (s *State) newAlloc(ty string) *Term {
	n := *s.nalloc
	*s.nalloc = n + 1
	s.allocTy[int64(n)] = ty
	return Alloc(n)
}

// ---------------------------------------------------------------- heap

func addrEq(a, b []*Term) *Term {
	if len(a) != len(b) {
		return False
	}
	var cs []*Term
	for i := range a {
		if a[i].S != b[i].S {
			return False
		}
		cs = append(cs, Eq(a[i], b[i]))
	}
	return And(cs...)
}

func zeroOf(s Sort) *Term {
	switch s {
	case SBool:
		return False
	case SInt:
		return Zero
	}
	return EmptyStr
}

func heapBaseName(ver int, slot string) string {
	return fmt.Sprintf("H%d.%s", ver, slot)
}

func (s *State) selectIn(heap Heap, slot string, sort Sort, addr []*Term) *Term {
	h := heap.get(slot)
	type pend struct {
		c *Term
		v *Term
	}
	var pends []pend
	var base *Term
	for n := h.stores; ; n = n.next {
		if n == nil {
			// reached base
			fam := slotFamily(slot)
			if rec := heap.frames[fam]; rec != nil && rec.ver == h.ver {
				base = s.framedBase(heap, rec, h, slot, sort, addr)
				break
			}
			base = s.plainBase(heap, h, slot, sort, addr)
			break
		}
		c := addrEq(n.addr, addr)
		if c == True {
			base = n.val
			break
		}
		if c == False {
			continue
		}
		pends = append(pends, pend{c, n.val})
	}
	r := base
	for i := len(pends) - 1; i >= 0; i-- {
		r = Ite(pends[i].c, pends[i].v, r)
	}
	return r
}

func (s *State) sel(slot string, sort Sort, addr []*Term) *Term {
	return s.selectIn(s.heap, slot, sort, addr)
}

func (s *State) sto(slot string, addr []*Term, val *Term) {
	h := s.heap.get(slot)
	n := 1
	if h.stores != nil {
		n = h.stores.n + 1
	}
	h.stores = &storeNode{addr: addr, val: val, next: h.stores, n: n}
	s.heap.slots[slot] = h
}

// plainBase: value of slot(addr) when no store of the chain matches and no frame applies.
func (s *State) plainBase(heap Heap, h HeapArr, slot string, sort Sort, addr []*Term) *Term {
	// objects created by the package initialisers or by this activation have their whole history in
	// the store chain: below it (version 0) they are zero
	freshAfter := len(addr) > 0 && addr[0].K == KAlloc && (h.ver == 0 || (isFreshRef(addr[0]) && heap.verAlloc[h.ver] > 0 && int(addr[0].I) >= heap.verAlloc[h.ver]))
	if freshAfter {
		// object allocated after this base version was created: never written below this point
		if cp, ok := s.copies[addr[0].I]; ok && len(addr) == 2 && strings.HasPrefix(slot, "elem(") {
			inner := s.selectIn(cp.heap, slot, sort, []*Term{cp.arr, Add(cp.off, addr[1])})
			rest := zeroOf(sort)
			if cp.arr2 != nil {
				i2 := Sub(addr[1], cp.oldlen)
				in2 := s.selectIn(cp.heap, slot, sort, []*Term{cp.arr2, Add(cp.off2, i2)})
				rest = Ite(And(Le(cp.oldlen, addr[1]), Lt(i2, cp.len2)), in2, zeroOf(sort))
			}
			return Ite(And(Le(Zero, addr[1]), Lt(addr[1], cp.oldlen)), inner, rest)
		}
		return zeroOf(sort)
	}
	if len(addr) > 0 && addr[0] == Zero && (strings.HasPrefix(slot, "mapdom(") || strings.HasPrefix(slot, "mapval(") || strings.HasPrefix(slot, "maplen(")) {
		return zeroOf(sort)
	}
	return App(heapBaseName(h.ver, slot), sort, addr...)
}

// framedBase: value of slot(addr) at the base of a framed version.
func (s *State) framedBase(heap Heap, rec *frameRec, h HeapArr, slot string, sort Sort, addr []*Term) *Term {
	var existed *Term
	if len(addr) == 0 {
		existed = True
	} else {
		existed = existedAt(addr[0], rec)
	}
	if existed == False {
		return s.plainBase(heap, h, slot, sort, addr)
	}
	prev := s.selectIn(rec.prev, slot, sort, addr)
	if existed == True {
		return prev
	}
	return Ite(existed, prev, s.plainBase(heap, h, slot, sort, addr))
}

// existedAt: did object a exist when the framed call was made (and is it not an exception)?
func existedAt(a *Term, rec *frameRec) *Term {
	var c *Term
	switch {
	case a.isOp("ite"):
		return Ite(a.Args[0], existedAt(a.Args[1], rec), existedAt(a.Args[2], rec))
	case a.K == KInt && a.I == 0:
		c = True
	case a.K == KAlloc:
		c = Bool(int(a.I) < rec.nAtCall)
	case a.K == KPlace || a.K == KFunc:
		c = False
	case isOldRef(a):
		c = True
	default:
		c = Le(a, rec.wm)
	}
	if c == False {
		return False
	}
	var cs []*Term
	cs = append(cs, c)
	for _, ex := range rec.except {
		if ex.fam != "" && !strings.HasPrefix(rec.fam, ex.fam) {
			continue // the excepted object has no slots in this family
		}
		cs = append(cs, Ne(a, ex.ref))
	}
	return And(cs...)
}

// havocFamilyFramed: new base version with a "callee writes only its own fresh objects" frame.
func (s *State) havocFamilyFramed(fam string, ver int, wm *Term, except []frameExc, prev Heap) {
	s.havocFamily(fam, ver)
	s.heap.frames[fam] = &frameRec{ver: ver, wm: wm, except: except, prev: prev, nAtCall: *s.nalloc, fam: fam}
}

// havocFamilyEntryFramed: loop havoc inside a function that writes only its own fresh objects
// (plus exceptions): objects that existed at function entry keep their value.
func (s *State) havocFamilyEntryFramed(fam string, ver int, except []frameExc, prev Heap) {
	s.havocFamily(fam, ver)
	s.heap.frames[fam] = &frameRec{ver: ver, wm: Sym("ALLOC0", SInt), except: except, prev: prev, nAtCall: int(initAllocBoundary), fam: fam}
}

// excFor: a frame exception for an object of static type t.
func (e *Engine) excFor(ref *Term, t types.Type) frameExc {
	switch u := t.Underlying().(type) {
	case *types.Map:
		return frameExc{ref, "map(" + e.typeKey(u) + ")"}
	case *types.Pointer:
		if _, ok := u.Elem().Underlying().(*types.Struct); ok {
			return frameExc{ref, e.typeKey(u.Elem()) + "."}
		}
	}
	return frameExc{ref, ""}
}

var histN int

// setOnceSlots: pointer fields that, once set, are never written again (history constraint "once
// non-nil, keeps its value": a reference is resolved at most once). Checked at every store of the repository to such a field (HIST obligation) and
// assumed across every havoc of the field's family (loop cut, call summary).
var setOnceSlots = map[string]bool{
	"model.ObjectFieldAttribute.RefPacket": true,
}

// havocFamily forgets everything known about a slot family: a new base version.
func (s *State) havocFamily(fam string, ver int) {
	var old Heap
	var once []string
	for slot := range setOnceSlots {
		if slotFamily(slot) == fam {
			once = append(once, slot)
		}
	}
	if len(once) > 0 {
		old = s.heap.clone()
		defer func() {
			for _, slot := range once {
				histN++
				bv := Sym(fmt.Sprintf("bv.hist#%d", histN), SInt)
				before := s.selectIn(old, slot, SInt, []*Term{bv})
				after := s.sel(slot, SInt, []*Term{bv})
				s.assume(Forall(bv, Implies(Ne(before, Zero), Eq(after, before))))
			}
		}()
	}
	delete(s.heap.frames, fam)
	s.heap.verAlloc[ver] = *s.nalloc
	s.heap.famVer[fam] = ver
	for k := range s.heap.slots {
		if slotFamily(k) == fam {
			delete(s.heap.slots, k)
		}
	}
}

// ---------------------------------------------------------------- layouts

type Engine struct {
	prog         *ssa.Program
	pkgs         map[string]*ssa.Package
	repoPkgs     map[string]bool // package paths whose struct types are transparent
	layouts      map[types.Type][]slot
	places       []Place
	funcs        []funcVal
	typeIDs      map[string]int64
	typeByID     map[int64]types.Type
	havocN       int
	symN         int
	obls         map[string]*Obligation
	oblOrder     []string
	cfg          *Config
	contracts    *Contracts
	tree         *TreeSpec
	initHeap     Heap
	initAlloc    int
	assumed      map[string]bool // unchecked assumptions actually used
	curEntry     *ssa.Function
	curPhaseB    bool
	paths        int
	steps        int // basic blocks executed by the current symbolic run
	errors       []string
	siteNames    map[ssa.Instruction]string
	loopInfo     map[*ssa.Function]*loopAnalysis
	entryWrites  map[string]bool
	arrSpecs     map[*Term]func(*Term) Value
	arrFacts     map[*Term]func(*State, *Term)
	exited       []*State
	inInit       bool
	initAllocTy  map[int64]string
	initCopies   map[int64]*arrCopy
	vacuity      []vacuityProbe
	onReturn     func(fn *ssa.Function, r pathResult)
	onExit       func(fn *ssa.Function, s *State)
	mapIters     [][]Value
	pendingPre   *Heap
	globalPlaces map[string]*Term
	detCur       *mapLoopInfo
	curFramed    bool
	curExcept    []frameExc
}

type funcVal struct {
	fn       *ssa.Function
	bindings []Value
}

func (e *Engine) typeKey(t types.Type) string {
	return strings.ReplaceAll(e.typeKeyRaw(t), "interface{}", "any")
}

func (e *Engine) typeKeyRaw(t types.Type) string {
	return types.TypeString(t, func(p *types.Package) string {
		path := p.Path()
		if i := strings.LastIndex(path, "/"); i >= 0 {
			path = path[i+1:]
		}
		return path
	})
}

// typeID: dynamic type tags for interface values. 0 is the nil interface.
func (e *Engine) typeID(t types.Type) *Term {
	k := types.TypeString(t, nil)
	id, ok := e.typeIDs[k]
	if !ok {
		id = int64(len(e.typeIDs) + 1)
		e.typeIDs[k] = id
		e.typeByID[id] = t
	}
	return Int(id)
}

func (e *Engine) isTransparent(n *types.Named) bool {
	if n.Obj().Pkg() == nil {
		return false
	}
	return e.repoPkgs[n.Obj().Pkg().Path()]
}

func (e *Engine) layout(t types.Type) []slot {
	if l, ok := e.layouts[t]; ok {
		return l
	}
	var l []slot
	switch u := t.Underlying().(type) {
	case *types.Basic:
		switch {
		case u.Info()&types.IsBoolean != 0:
			l = []slot{{"", SBool}}
		case u.Info()&types.IsString != 0:
			l = []slot{{"", SStr}}
		case u.Kind() == types.UntypedNil:
			l = []slot{{"", SInt}}
		default:
			l = []slot{{"", SInt}}
		}
	case *types.Pointer, *types.Map, *types.Chan, *types.Signature:
		l = []slot{{"", SInt}}
	case *types.Interface:
		l = []slot{{"#tag", SInt}, {"#val", SInt}}
	case *types.Slice:
		l = []slot{{"#arr", SInt}, {"#off", SInt}, {"#len", SInt}, {"#cap", SInt}}
	case *types.Struct:
		if n, ok := t.(*types.Named); ok {
			switch e.typeKey(n) {
			case "strings.Builder", "bytes.Buffer":
				l = []slot{{"#content", SStr}}
				e.layouts[t] = l
				return l
			}
			if !e.isTransparent(n) {
				l = []slot{{"#opaque", SInt}}
				e.layouts[t] = l
				return l
			}
		}
		for i := 0; i < u.NumFields(); i++ {
			f := u.Field(i)
			for _, s := range e.layout(f.Type()) {
				l = append(l, slot{"." + f.Name() + s.Suffix, s.Sort})
			}
		}
	case *types.Tuple:
		for i := 0; i < u.Len(); i++ {
			for _, s := range e.layout(u.At(i).Type()) {
				l = append(l, slot{fmt.Sprintf("$%d%s", i, s.Suffix), s.Sort})
			}
		}
	case *types.Array:
		// arrays only live behind pointers (varargs); as values: flattened elements
		for i := int64(0); i < u.Len(); i++ {
			for _, s := range e.layout(u.Elem()) {
				l = append(l, slot{fmt.Sprintf("[%d]%s", i, s.Suffix), s.Sort})
			}
		}
	default:
		panic(fmt.Sprintf("layout: unsupported type %v (%T)", t, t.Underlying()))
	}
	e.layouts[t] = l
	return l
}

// fieldRange: offset and length of field i within the flattened struct value.
func (e *Engine) fieldRange(st *types.Struct, i int) (int, int) {
	off := 0
	for j := 0; j < i; j++ {
		off += len(e.layout(st.Field(j).Type()))
	}
	return off, len(e.layout(st.Field(i).Type()))
}

func (e *Engine) zero(t types.Type) Value {
	l := e.layout(t)
	v := make(Value, len(l))
	for i, s := range l {
		v[i] = zeroOf(s.Sort)
	}
	return v
}

// objPrefix: heap slot prefix for an object of type t referenced by a whole-object pointer.
func (e *Engine) objPrefix(t types.Type) string {
	if _, ok := t.Underlying().(*types.Struct); ok {
		if _, named := t.(*types.Named); named {
			return e.typeKey(t)
		}
	}
	if a, ok := t.Underlying().(*types.Array); ok {
		_ = a
		return "array"
	}
	return "cell(" + e.typeKey(t) + ")"
}

func (e *Engine) placeOf(p *Term, pointee types.Type) Place {
	if p.K == KPlace {
		return e.places[p.I]
	}
	return Place{Prefix: e.objPrefix(pointee), Addr: []*Term{p}}
}

func (e *Engine) newPlace(pl Place) *Term {
	e.places = append(e.places, pl)
	return PlaceT(len(e.places) - 1)
}

func (e *Engine) load(s *State, pl Place, t types.Type) Value {
	if a, ok := t.Underlying().(*types.Array); ok {
		var v Value
		for i := int64(0); i < a.Len(); i++ {
			v = append(v, e.load(s, Place{Prefix: "elem(" + e.typeKey(a.Elem()) + ")", Addr: []*Term{pl.Addr[0], Int(i)}}, a.Elem())...)
		}
		return v
	}
	if len(pl.Addr) == 2 && strings.HasPrefix(pl.Prefix, "elem(") && !strings.Contains(pl.Prefix, ").") {
		arr := stripNilIte(pl.Addr[0])
		if f, ok := e.arrSpecs[arr]; ok {
			if g, ok := e.arrFacts[arr]; ok {
				g(s, pl.Addr[1])
			}
			return f(pl.Addr[1])
		}
	}
	l := e.layout(t)
	v := make(Value, len(l))
	for i, sl := range l {
		if strings.HasPrefix(pl.Prefix, "opaque(") {
			// embedded parts of runtime objects (parser -> BaseParser -> BaseRecognizer): pure function of the owner
			v[i] = App("old."+pl.Prefix+sl.Suffix, sl.Sort, pl.Addr...)
			continue
		}
		v[i] = s.sel(pl.Prefix+sl.Suffix, sl.Sort, pl.Addr)
	}
	e.typingAssume(s, t, v)
	e.allocatedAssume(s, t, v)
	return v
}

// allocatedAssume: heap well-formedness — every reference read from the heap denotes an object
// that has already been allocated (it is at most the current allocation watermark).
func (e *Engine) allocatedAssume(s *State, t types.Type, v Value) {
	refAt := -1
	switch t.Underlying().(type) {
	case *types.Pointer, *types.Map:
		refAt = 0
	case *types.Slice:
		refAt = 0
	case *types.Interface:
		refAt = 1
	}
	if refAt < 0 || refAt >= len(v) {
		return
	}
	r := v[refAt]
	noteQuantRefSlot(stripNilIte(r)) // the initial-heap closure axiom covers this slot function (term.go)
	if r.K == KInt || r.K == KAlloc || r.K == KPlace || r.K == KFunc || isOldRef(r) {
		return
	}
	s.assume(Le(r, s.allocTop()))
}

func (e *Engine) store(s *State, pl Place, t types.Type, v Value) {
	if a, ok := t.Underlying().(*types.Array); ok {
		n := len(e.layout(a.Elem()))
		for i := int64(0); i < a.Len(); i++ {
			e.store(s, Place{Prefix: "elem(" + e.typeKey(a.Elem()) + ")", Addr: []*Term{pl.Addr[0], Int(i)}}, a.Elem(), v[int(i)*n:int(i+1)*n])
		}
		return
	}
	l := e.layout(t)
	if len(l) != len(v) {
		panic(fmt.Sprintf("store: layout mismatch for %v: %d vs %d", t, len(l), len(v)))
	}
	for i, sl := range l {
		s.sto(pl.Prefix+sl.Suffix, pl.Addr, v[i])
	}
}

// stripNilIte: ite(c, nil, X) / ite(c, X, nil) -> X (an indexed slice is not the nil slice).
func stripNilIte(t *Term) *Term {
	if t.isOp("ite") {
		if t.Args[1] == Zero {
			return stripNilIte(t.Args[2])
		}
		if t.Args[2] == Zero {
			return stripNilIte(t.Args[1])
		}
	}
	return t
}

// typingAssume adds the representation invariants every well-typed Go value satisfies
// (slice len/cap ranges, interface tag/payload consistency) for symbolic values.
func (e *Engine) typingAssume(s *State, t types.Type, v Value) {
	switch u := t.Underlying().(type) {
	case *types.Slice:
		if v[2].K != KInt {
			s.assume(Le(Zero, v[2]))
		}
		if v[3].K != KInt || v[2].K != KInt {
			s.assume(Le(v[2], v[3]))
		}
		if v[0].K != KAlloc && v[0].K != KInt {
			s.assume(Or(Ne(v[0], Zero), Eq(v[3], Zero)))
		}
		if v[1].K != KInt {
			s.assume(Le(Zero, v[1]))
		}
		if v[3].K != KInt {
			s.assume(Le(v[3], Int(maxLen))) // allocation size bound (address space)
		}
	case *types.Interface:
		if v[0].K != KInt {
			s.assume(Le(Zero, v[0]))
			// nil interface has nil payload
			s.assume(Or(Ne(v[0], Zero), Eq(v[1], Zero)))
		}
		// no typed-nil interface values: established at every MakeInterface of the repository
		// (obligation SAFE:...:typednil), assumed for values coming from the heap or from parameters
		if !(v[0].K == KInt && v[1].K != KInt && false) {
			s.assume(Or(Eq(v[0], Zero), Ne(v[1], Zero)))
		}
	case *types.Basic:
		if u.Info()&types.IsUnsigned != 0 && v[0].K != KInt {
			s.assume(Le(Zero, v[0]))
		}
	case *types.Struct:
		if n, ok := t.(*types.Named); ok && !e.isTransparent(n) {
			return
		}
		off := 0
		for i := 0; i < u.NumFields(); i++ {
			n := len(e.layout(u.Field(i).Type()))
			e.typingAssume(s, u.Field(i).Type(), v[off:off+n])
			off += n
		}
	}
}

// fresh symbolic value of type t.
func (e *Engine) freshValue(s *State, t types.Type, name string) Value {
	l := e.layout(t)
	v := make(Value, len(l))
	for i, sl := range l {
		v[i] = Sym(name+sl.Suffix, sl.Sort)
	}
	e.typingAssume(s, t, v)
	return v
}

func (e *Engine) freshName(prefix string) string {
	e.symN++
	return fmt.Sprintf("%s#%d", prefix, e.symN)
}

func sortedKeys[V any](m map[string]V) []string {
	var ks []string
	for k := range m {
		ks = append(ks, k)
	}
	sort.Strings(ks)
	return ks
}

// histStore: a store of the repository to a set-once field keeps the history constraint: the old
// value is nil or the new value is the old value.
func (e *Engine) histStore(s *State, in ssa.Instruction, pl Place, t types.Type, v Value) {
	for i, sl := range e.layout(t) {
		slot := pl.Prefix + sl.Suffix
		if !setOnceSlots[slot] || len(pl.Addr) == 0 {
			continue
		}
		oldv := s.sel(slot, SInt, pl.Addr)
		name := e.siteName("INV", in, "set-once")
		if ch := s.top().chain; ch != "" {
			name = ch + "/" + name
		}
		e.oblige(s, "INV", name, slot+" is never cleared or re-pointed once set", in.Pos(), Or(Eq(oldv, Zero), Eq(v[i], oldv)))
	}
}
