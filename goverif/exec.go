package main

// Path-wise symbolic execution of go/ssa with loop cutting and obligation generation.

import (
	"fmt"
	"go/constant"
	"go/token"
	"go/types"
	"os"
	"strings"

	"golang.org/x/tools/go/ssa"
)

type Config struct {
	MaxPaths       int
	MaxDepth       int
	Kinds          map[string]bool // obligation kinds to generate
	Modular        bool            // use contracts of callees that have one
	MaxSteps       int             // basic-block budget of one symbolic run (0 = none)
	CrossCheck     bool            // thorough tier: every SMT query goes to all back ends
	PhaseB         func(fn *ssa.Function) bool
	InScope        func(fn *ssa.Function) bool // repo function whose body may be inlined
	CheckFrame     bool
	AllowRecursion bool // EMIT mode: concrete models, recursion bounded by the model's shape
	ConcreteMaps   bool // EMIT mode: iterate maps with fully known content concretely
}

type Obligation struct {
	Name      string
	Kind      string
	Func      string
	Desc      string
	Pos       string
	Instances []*OblInstance
	PhaseB    bool
	// results
	Status  string // proved | failed
	Backend string
	Secs    float64
	Fail    *OblInstance
}

type OblInstance struct {
	Assumptions []*Term
	Goal        *Term
	Closed      bool // discharged by the simplifier
	Res         SolveResult
	Note        string
	key         string
	Marks       []callMark
}

type execError struct{ msg string }

func (e *Engine) fail(format string, a ...any) {
	panic(execError{fmt.Sprintf(format, a...)})
}

// oblige records a proof obligation "pc => goal" for the named site, then assumes the goal.
func (e *Engine) oblige(s *State, kind, name, desc string, pos token.Pos, goal *Term) {
	if e.cfg.Kinds != nil && !e.cfg.Kinds[kind] {
		s.assume(goal)
		return
	}
	o := e.obls[name]
	if o == nil {
		o = &Obligation{Name: name, Kind: kind, Desc: desc, Func: e.curEntry.String(), PhaseB: e.curPhaseB}
		if pos.IsValid() {
			p := e.prog.Fset.Position(pos)
			o.Pos = fmt.Sprintf("%s:%d", p.Filename, p.Line)
		}
		e.obls[name] = o
		e.oblOrder = append(e.oblOrder, name)
	}
	inst := &OblInstance{Goal: goal}
	if goal == True {
		inst.Closed = true
		// keep one closed instance for counting
		if len(o.Instances) == 0 || !o.Instances[0].Closed {
			o.Instances = append(o.Instances, inst)
		} else {
			return
		}
		return
	}
	// slice the path condition? keep whole pc (small functions).
	inst.Assumptions = append([]*Term(nil), s.pc...)
	inst.Marks = append([]callMark(nil), s.marks...)
	var sb strings.Builder
	for _, a := range inst.Assumptions {
		fmt.Fprintf(&sb, "%d,", a.id)
	}
	fmt.Fprintf(&sb, "=>%d", goal.id)
	inst.key = sb.String()
	for _, x := range o.Instances {
		if x.key == inst.key {
			s.assume(goal)
			return
		}
	}
	o.Instances = append(o.Instances, inst)
	s.assume(goal)
}

// ---------------------------------------------------------------- site names

func (e *Engine) shortFunc(fn *ssa.Function) string {
	n := fn.String()
	n = strings.ReplaceAll(n, "github.com/xinchentechnote/fin-protoc/internal/", "")
	n = strings.ReplaceAll(n, "github.com/xinchentechnote/fin-protoc/", "")
	n = strings.ReplaceAll(n, "github.com/antlr4-go/antlr/v4", "antlr")
	return n
}

func (e *Engine) describe(in ssa.Instruction) string {
	tk := func(t types.Type) string { return e.typeKey(t) }
	switch x := in.(type) {
	case *ssa.FieldAddr:
		st := x.X.Type().Underlying().(*types.Pointer).Elem()
		return "deref:" + tk(st) + "." + st.Underlying().(*types.Struct).Field(x.Field).Name()
	case *ssa.UnOp:
		if x.Op == token.MUL {
			return "deref:" + tk(x.X.Type())
		}
	case *ssa.Store:
		return "store:" + tk(x.Addr.Type())
	case *ssa.IndexAddr:
		return "index:" + tk(x.X.Type())
	case *ssa.Index:
		return "index:" + tk(x.X.Type())
	case *ssa.Slice:
		return "slice:" + tk(x.X.Type())
	case *ssa.TypeAssert:
		return "assert:" + tk(x.AssertedType)
	case *ssa.MapUpdate:
		return "mapupdate:" + tk(x.Map.Type())
	case *ssa.BinOp:
		return "arith:" + x.Op.String()
	case ssa.CallInstruction:
		c := x.Common()
		if c.IsInvoke() {
			return "invoke:" + tk(c.Value.Type()) + "." + c.Method.Name()
		}
		if f := c.StaticCallee(); f != nil {
			return "call:" + e.shortFunc(f)
		}
		return "call:dynamic"
	case *ssa.Lookup:
		return "lookup:" + tk(x.X.Type())
	case *ssa.Return:
		return "return"
	case *ssa.MakeInterface:
		return "makeiface:" + tk(x.X.Type())
	}
	return fmt.Sprintf("%T", in)
}

// siteName: <func>#<KIND>:<descriptor>:<ordinal among equal descriptors in the function>.
func (e *Engine) siteName(kind string, in ssa.Instruction, extra string) string {
	fn := in.Parent()
	key := e.describe(in)
	if extra != "" {
		key += ":" + extra
	}
	if n, ok := e.siteNames[in]; ok && extra == "" {
		return e.shortFunc(fn) + "#" + kind + ":" + n
	}
	ord := 0
	found := false
	for _, b := range fn.Blocks {
		for _, i2 := range b.Instrs {
			if i2 == in {
				found = true
				break
			}
			if e.describe(i2) == e.describe(in) {
				ord++
			}
		}
		if found {
			break
		}
	}
	n := fmt.Sprintf("%s:%d", key, ord)
	if extra == "" {
		e.siteNames[in] = n
	}
	return e.shortFunc(fn) + "#" + kind + ":" + n
}

func (e *Engine) safe(s *State, in ssa.Instruction, extra string, goal *Term) {
	name := e.siteName("SAFE", in, extra)
	if ch := s.top().chain; ch != "" {
		name = ch + "/" + name
	}
	e.oblige(s, "SAFE", name, e.describe(in), in.Pos(), goal)
}

// ---------------------------------------------------------------- values of operands

func (e *Engine) constValue(c *ssa.Const) Value {
	t := c.Type()
	if c.Value == nil {
		return e.zero(t)
	}
	switch c.Value.Kind() {
	case constant.Bool:
		return Value{Bool(constant.BoolVal(c.Value))}
	case constant.String:
		return Value{Str(constant.StringVal(c.Value))}
	case constant.Int:
		if i, ok := constant.Int64Val(c.Value); ok {
			return Value{Int(i)}
		}
		if u, ok := constant.Uint64Val(c.Value); ok {
			return Value{Int(int64(u))}
		}
	case constant.Float:
		if b, ok := t.Underlying().(*types.Basic); ok && b.Info()&types.IsInteger != 0 {
			i, _ := constant.Int64Val(constant.ToInt(c.Value))
			return Value{Int(i)}
		}
		return Value{App("floatconst."+c.Value.ExactString(), SInt)}
	}
	return Value{App("const."+c.Value.ExactString(), SInt)}
}

func (e *Engine) get(s *State, v ssa.Value) Value {
	switch x := v.(type) {
	case *ssa.Const:
		return e.constValue(x)
	case *ssa.Global:
		return Value{e.globalPlace(x.Type(), x.Pkg.Pkg.Name(), x.Name())}
	case *ssa.Function:
		return Value{e.funcTerm(x, nil)}
	case *ssa.Builtin:
		e.fail("builtin as value: %s", x.Name())
	}
	f := s.top()
	if r, ok := f.regs[v]; ok {
		return r
	}
	if fv, ok := v.(*ssa.FreeVar); ok {
		e.fail("unbound free variable %s", fv.Name())
	}
	e.fail("unbound register %s in %s", v.Name(), f.fn)
	return nil
}

// globalPlace: the (canonical) address term of a package-level variable.
func (e *Engine) globalPlace(ptrType types.Type, pkgName, name string) *Term {
	prefix := "global(" + e.typeKey(ptrType)[1:] + ":" + pkgName + "." + name + ")"
	if t, ok := e.globalPlaces[prefix]; ok {
		return t
	}
	t := e.newPlace(Place{Prefix: prefix, Addr: nil})
	e.globalPlaces[prefix] = t
	return t
}

func (e *Engine) funcTerm(fn *ssa.Function, b []Value) *Term {
	if b == nil {
		for i, f := range e.funcs {
			if f.fn == fn && f.bindings == nil {
				return FuncT(i)
			}
		}
	}
	e.funcs = append(e.funcs, funcVal{fn, b})
	return FuncT(len(e.funcs) - 1)
}

// ---------------------------------------------------------------- running

type pathResult struct {
	st  *State
	ret []Value // flattened result tuple (one Value per result)
}

// runFrames executes until the frame stack drops below `base`; returns finished states.
func (e *Engine) runEntry(init *State) []pathResult {
	var done []pathResult
	work := []*State{init}
	for len(work) > 0 {
		s := work[len(work)-1]
		work = work[:len(work)-1]
		if s.dead {
			continue
		}
		e.steps++
		if os.Getenv("GOVERIF_TRACESTEPS") != "" && e.steps%997 == 0 {
			var st []string
			for _, f := range s.frames {
				st = append(st, fmt.Sprintf("%s#%d(%s)", f.fn.Name(), f.block.Index, f.block.Comment))
			}
			fmt.Fprintf(os.Stderr, "steps=%d stack=%v\n", e.steps, st)
		}
		if e.cfg.MaxSteps > 0 && e.steps > e.cfg.MaxSteps {
			e.fail("step budget exceeded (> %d basic blocks): the function is outside what the path executor can enumerate", e.cfg.MaxSteps)
		}
		succ, fin := e.stepBlock(s)
		if fin != nil {
			e.paths++
			if e.paths > e.cfg.MaxPaths {
				e.fail("path explosion (> %d paths)", e.cfg.MaxPaths)
			}
			done = append(done, *fin)
		}
		work = append(work, succ...)
	}
	return done
}

// stepBlock runs the current frame from (block, idx) until a control transfer.
func (e *Engine) stepBlock(s *State) ([]*State, *pathResult) {
	for {
		if s.dead {
			return nil, nil
		}
		f := s.top()
		if f.idx >= len(f.block.Instrs) {
			e.fail("fell off block %d of %s", f.block.Index, f.fn)
		}
		in := f.block.Instrs[f.idx]
		f.idx++
		switch x := in.(type) {
		case *ssa.If:
			c := e.get(s, x.Cond)[0]
			var out []*State
			tb, fb := f.block.Succs[0], f.block.Succs[1]
			if c != False {
				t := s
				if c != True {
					t = s.fork()
					t.assume(c)
					refineRegs(t.top(), c, true)
				}
				if !t.dead {
					if e.enterBlock(t, tb) {
						out = append(out, t)
					}
				}
				if c == True {
					return out, nil
				}
			}
			s.assume(Not(c))
			refineRegs(s.top(), c, false)
			if !s.dead && e.enterBlock(s, fb) {
				out = append(out, s)
			}
			return out, nil
		case *ssa.Jump:
			if !e.enterBlock(s, f.block.Succs[0]) {
				return nil, nil
			}
			continue
		case *ssa.Return:
			var rets []Value
			for _, r := range x.Results {
				rets = append(rets, e.get(s, r))
			}
			return e.doReturn(s, rets)
		case *ssa.Panic:
			// explicit panic: a SAFE obligation that this point is unreachable
			e.safe(s, x, "panic", False)
			return nil, nil
		case *ssa.RunDefers:
			e.runDefers(s)
			continue
		case ssa.CallInstruction:
			if d, ok := x.(*ssa.Defer); ok {
				var args []Value
				for _, a := range d.Call.Args {
					args = append(args, e.get(s, a))
				}
				var fv Value
				if !d.Call.IsInvoke() {
					if _, isFn := d.Call.Value.(*ssa.Function); !isFn {
						if _, isB := d.Call.Value.(*ssa.Builtin); !isB {
							fv = e.get(s, d.Call.Value)
						}
					}
				} else {
					fv = e.get(s, d.Call.Value)
				}
				f.defers = append(f.defers, deferred{d, args, fv})
				continue
			}
			if _, ok := x.(*ssa.Go); ok {
				e.fail("goroutines are outside the verified subset")
			}
			succ, cont := e.doCall(s, x)
			if !cont {
				return succ, nil
			}
			continue
		default:
			e.execInstr(s, in)
		}
	}
}

// concreteMapKeys: the keys of a map whose whole history is in the store chain (fresh object,
// version-0 base) and whose keys are pairwise syntactically distinct.
func (e *Engine) concreteMapKeys(s *State, mt *types.Map, m *Term) ([]Value, bool) {
	if m.K != KAlloc {
		return nil, false
	}
	slot := "mapdom(" + e.typeKey(mt) + ")"
	h := s.heap.get(slot)
	if h.ver != 0 {
		return nil, false
	}
	var keys []Value
	seen := map[string]bool{}
	for n := h.stores; n != nil; n = n.next {
		if n.addr[0] != m {
			if n.addr[0].K != KAlloc {
				return nil, false
			}
			continue
		}
		k := Value(n.addr[1:])
		id := ""
		for _, t := range k {
			id += t.key + "|"
		}
		if seen[id] {
			continue
		}
		seen[id] = true
		if n.val != True {
			return nil, false
		}
		keys = append([]Value{k}, keys...)
	}
	// distinctness: at most one non-literal key
	sym := 0
	for _, k := range keys {
		for _, t := range k {
			if !t.IsConst() {
				sym++
			}
		}
	}
	if sym > 1 {
		return nil, false
	}
	return keys, true
}

// concreteIterLoop: the loop is driven by a concretely iterated map.
func (e *Engine) concreteIterLoop(s *State, f *Frame, lp *loop) bool {
	for _, in := range lp.header.Instrs {
		if nx, ok := in.(*ssa.Next); ok {
			if v, ok := f.regs[nx.Iter]; ok && len(v) == 3 && v[1].K == KInt {
				return true
			}
		}
	}
	return false
}

func (e *Engine) markUnrolled(f *Frame, b *ssa.BasicBlock) bool {
	if f.unrolled == nil {
		f.unrolled = map[*ssa.BasicBlock]bool{}
	} else {
		n := make(map[*ssa.BasicBlock]bool, len(f.unrolled)+1)
		for k, v := range f.unrolled {
			n[k] = v
		}
		f.unrolled = n
	}
	f.unrolled[b] = true
	return true
}

// refineRegs: after branching on c, register slots of the form ite(c, a, b) (or ite over a
// conjunct of c) collapse to the branch taken.
func refineRegs(f *Frame, c *Term, truth bool) {
	conds := map[*Term]bool{}
	var add func(t *Term, v bool)
	add = func(t *Term, v bool) {
		conds[t] = v
		if t.isOp("not") {
			add(t.Args[0], !v)
		}
		if v && t.isOp("and") {
			for _, a := range t.Args {
				add(a, true)
			}
		}
		if !v && t.isOp("or") {
			for _, a := range t.Args {
				add(a, false)
			}
		}
	}
	add(c, truth)
	for k, val := range f.regs {
		var nv Value
		for i, t := range val {
			r := t
			for r.isOp("ite") {
				if v, ok := conds[r.Args[0]]; ok {
					if v {
						r = r.Args[1]
					} else {
						r = r.Args[2]
					}
					continue
				}
				break
			}
			if r != t {
				if nv == nil {
					nv = append(Value{}, val...)
				}
				nv[i] = r
			}
		}
		if nv != nil {
			f.regs[k] = nv
		}
	}
}

func (e *Engine) doReturn(s *State, rets []Value) ([]*State, *pathResult) {
	f := s.top()
	// deferred calls that were not run by an explicit RunDefers are run by RunDefers before return in SSA.
	if len(s.frames) == 1 {
		return nil, &pathResult{st: s, ret: rets}
	}
	s.frames = s.frames[:len(s.frames)-1]
	caller := s.top()
	if v, ok := f.call.(ssa.Value); ok && f.call != nil {
		caller.regs[v] = e.packResults(f.fn, rets)
	}
	return []*State{s}, nil
}

func (e *Engine) packResults(fn *ssa.Function, rets []Value) Value {
	var v Value
	for _, r := range rets {
		v = append(v, r...)
	}
	return v
}

// enterBlock moves the top frame to block b handling loop headers. Returns false when the path ends.
func (e *Engine) enterBlock(s *State, b *ssa.BasicBlock) bool {
	f := s.top()
	from := f.block
	la := e.loops(f.fn)
	if lp, isHeader := la.headers[b]; isHeader && !(f.unrolled[b] || (f.loops[b] == nil && (e.unrollable(s, f, lp) || e.concreteIterLoop(s, f, lp)) && e.markUnrolled(f, b))) {
		if _, seen := f.loops[b]; seen && la.isBackEdge(from, b) {
			// back edge: check the invariant, end of path
			e.checkLoopInvariant(s, f, lp, from, false)
			e.detLoopCarried(s, f, lp, from)
			return false
		}
		// first entry: check invariant on entry, havoc, assume
		e.cutLoop(s, f, lp, from)
		f.prev = from
		f.block = b
		f.idx = 0
		// skip phis: already assigned by cutLoop
		for f.idx < len(b.Instrs) {
			if _, ok := b.Instrs[f.idx].(*ssa.Phi); !ok {
				break
			}
			f.idx++
		}
		return !s.dead
	}
	f.prev = from
	f.block = b
	f.idx = 0
	// phis evaluated simultaneously
	var vals []Value
	var phis []*ssa.Phi
	for _, in := range b.Instrs {
		p, ok := in.(*ssa.Phi)
		if !ok {
			break
		}
		for i, pred := range b.Preds {
			if pred == from {
				vals = append(vals, e.get(s, p.Edges[i]))
				phis = append(phis, p)
				break
			}
		}
		f.idx++
	}
	for i, p := range phis {
		f.regs[p] = vals[i]
	}
	return true
}

// ---------------------------------------------------------------- instructions

func (e *Engine) execInstr(s *State, in ssa.Instruction) {
	f := s.top()
	switch x := in.(type) {
	case *ssa.Alloc:
		t := x.Type().Underlying().(*types.Pointer).Elem()
		r := s.newAlloc(e.typeKey(t))
		f.regs[x] = Value{r}
	case *ssa.FieldAddr:
		p := e.get(s, x.X)[0]
		pt := x.X.Type().Underlying().(*types.Pointer).Elem()
		e.safe(s, x, "", Ne(p, Zero))
		pl := e.placeOf(p, pt)
		st := pt.Underlying().(*types.Struct)
		if n, ok := pt.(*types.Named); ok && !e.isTransparent(n) {
			if k := e.typeKey(n); k != "strings.Builder" && k != "bytes.Buffer" {
				fld := st.Field(x.Field)
				if !fld.Embedded() {
					e.fail("field access into opaque external struct %s.%s", k, fld.Name())
				}
				if _, byValue := fld.Type().Underlying().(*types.Struct); byValue {
					// embedded base struct of an opaque object: same object identity
					f.regs[x] = Value{p}
				} else {
					f.regs[x] = Value{e.newPlace(Place{Prefix: "opaque(" + k + ")." + fld.Name(), Addr: []*Term{p}})}
				}
				return
			}
		}
		f.regs[x] = Value{e.newPlace(Place{Prefix: pl.Prefix + "." + st.Field(x.Field).Name(), Addr: pl.Addr})}
	case *ssa.Field:
		v := e.get(s, x.X)
		st := x.X.Type().Underlying().(*types.Struct)
		off, n := e.fieldRange(st, x.Field)
		f.regs[x] = v[off : off+n]
	case *ssa.IndexAddr:
		idx := e.get(s, x.Index)[0]
		switch xt := x.X.Type().Underlying().(type) {
		case *types.Slice:
			sl := e.get(s, x.X)
			e.safe(s, x, "", And(Le(Zero, idx), Lt(idx, sl[2])))
			f.regs[x] = Value{e.newPlace(Place{Prefix: "elem(" + e.typeKey(xt.Elem()) + ")", Addr: []*Term{sl[0], Add(sl[1], idx)}})}
		case *types.Pointer:
			arr := xt.Elem().Underlying().(*types.Array)
			p := e.get(s, x.X)[0]
			e.safe(s, x, "", And(Ne(p, Zero), Le(Zero, idx), Lt(idx, Int(arr.Len()))))
			f.regs[x] = Value{e.newPlace(Place{Prefix: "elem(" + e.typeKey(arr.Elem()) + ")", Addr: []*Term{p, idx}})}
		default:
			e.fail("IndexAddr on %v", x.X.Type())
		}
	case *ssa.Index:
		idx := e.get(s, x.Index)[0]
		switch xt := x.X.Type().Underlying().(type) {
		case *types.Basic: // string indexing
			str := e.get(s, x.X)[0]
			e.safe(s, x, "", And(Le(Zero, idx), Lt(idx, StrLen(str))))
			f.regs[x] = Value{strByteAt(str, idx)}
		case *types.Array:
			v := e.get(s, x.X)
			n := len(e.layout(xt.Elem()))
			if idx.K != KInt {
				e.fail("symbolic index into array value")
			}
			e.safe(s, x, "", Bool(idx.I >= 0 && idx.I < xt.Len()))
			f.regs[x] = v[int(idx.I)*n : int(idx.I+1)*n]
		default:
			e.fail("Index on %v", x.X.Type())
		}
	case *ssa.UnOp:
		e.execUnOp(s, x)
	case *ssa.Store:
		p := e.get(s, x.Addr)[0]
		t := x.Addr.Type().Underlying().(*types.Pointer).Elem()
		e.safe(s, x, "", Ne(p, Zero))
		pl := e.placeOf(p, t)
		e.noteWrite(s, x, pl)
		val := e.get(s, x.Val)
		if strings.HasPrefix(pl.Prefix, "elem(") && !strings.Contains(pl.Prefix, ").") && e.isRepoPtr(t) {
			// varargs / literal arrays are built by element stores too
			e.safe(s, x, "nilelem", Ne(val[0], Zero))
		}
		e.detStore(s, x, pl, val)
		e.histStore(s, x, pl, t, val)
		e.store(s, pl, t, val)
	case *ssa.BinOp:
		f.regs[x] = e.binop(s, x)
	case *ssa.Phi:
		e.fail("stray phi")
	case *ssa.MakeInterface:
		v := e.get(s, x.X)
		if _, isPtr := x.X.Type().Underlying().(*types.Pointer); isPtr {
			e.safe(s, x, "typednil", Ne(v[0], Zero))
		}
		f.regs[x] = e.makeIface(s, x.X.Type(), v)
	case *ssa.ChangeInterface:
		f.regs[x] = e.get(s, x.X)
	case *ssa.ChangeType:
		f.regs[x] = e.get(s, x.X)
	case *ssa.Convert:
		f.regs[x] = e.convert(s, x)
	case *ssa.TypeAssert:
		e.typeAssert(s, x)
	case *ssa.Extract:
		tup := x.Tuple.Type().(*types.Tuple)
		v := e.get(s, x.Tuple)
		off := 0
		for i := 0; i < x.Index; i++ {
			off += len(e.layout(tup.At(i).Type()))
		}
		f.regs[x] = v[off : off+len(e.layout(tup.At(x.Index).Type()))]
	case *ssa.MakeMap:
		r := s.newAlloc(e.typeKey(x.Type()))
		f.regs[x] = Value{r}
	case *ssa.MakeSlice:
		n := e.get(s, x.Len)[0]
		c := e.get(s, x.Cap)[0]
		e.safe(s, x, "", And(Le(Zero, n), Le(n, c)))
		r := s.newAlloc(e.typeKey(x.Type()))
		f.regs[x] = Value{r, Zero, n, c}
	case *ssa.MakeClosure:
		var b []Value
		for _, bv := range x.Bindings {
			b = append(b, e.get(s, bv))
		}
		f.regs[x] = Value{e.funcTerm(x.Fn.(*ssa.Function), b)}
	case *ssa.MapUpdate:
		m := e.get(s, x.Map)[0]
		mt := x.Map.Type().Underlying().(*types.Map)
		e.safe(s, x, "", Ne(m, Zero))
		k := e.get(s, x.Key)
		v := e.get(s, x.Value)
		if e.isRepoPtr(mt.Elem()) {
			e.safe(s, x, "nilelem", Ne(v[0], Zero))
		}
		e.noteWrite(s, x, Place{Prefix: "map(" + e.typeKey(mt) + ")", Addr: []*Term{m}})
		e.detMapUpdate(s, x, m, k, v)
		e.mapStore(s, mt, m, k, v)
	case *ssa.Lookup:
		e.lookup(s, x)
	case *ssa.Slice:
		e.sliceOp(s, x)
	case *ssa.Range:
		// iterator state: the map/string value itself; maps whose whole content is known (fresh, with
		// syntactically distinct keys) are iterated concretely in insertion order
		v := e.get(s, x.X)
		if mt, ok := x.X.Type().Underlying().(*types.Map); ok && e.cfg.ConcreteMaps {
			if keys, ok := e.concreteMapKeys(s, mt, v[0]); ok {
				e.mapIters = append(e.mapIters, keys)
				f.regs[x] = Value{v[0], Int(int64(len(e.mapIters) - 1)), Zero}
				break
			}
		}
		f.regs[x] = v
	case *ssa.Next:
		e.next(s, x)
	case *ssa.DebugRef:
	default:
		e.fail("unsupported instruction %T: %s", in, in)
	}
}

func strByteAt(str, idx *Term) *Term {
	if str.K == KStrLit && idx.K == KInt && idx.I >= 0 && int(idx.I) < len(str.Name) {
		return Int(int64(str.Name[idx.I]))
	}
	// first / last byte of a concat whose boundary atom is a literal
	if str.isOp("concat") {
		if idx.K == KInt && idx.I >= 0 {
			if a := str.Args[0]; a.K == KStrLit && int(idx.I) < len(a.Name) {
				return Int(int64(a.Name[idx.I]))
			}
		}
	}
	return App("byteat", SInt, str, idx)
}

func (e *Engine) execUnOp(s *State, x *ssa.UnOp) {
	f := s.top()
	v := e.get(s, x.X)
	switch x.Op {
	case token.MUL:
		p := v[0]
		t := x.X.Type().Underlying().(*types.Pointer).Elem()
		e.safe(s, x, "", Ne(p, Zero))
		pl := e.placeOf(p, t)
		val := e.load(s, pl, t)
		if strings.HasPrefix(pl.Prefix, "opaque(") && len(val) == 1 {
			// embedded base pointers of runtime objects (parser -> BaseParser ...) are non-nil: trusted
			s.assume(Ne(val[0], Zero))
		}
		e.afterLoad(s, pl, t, val)
		f.regs[x] = val
	case token.NOT:
		f.regs[x] = Value{Not(v[0])}
	case token.SUB:
		f.regs[x] = Value{Sub(Zero, v[0])}
	case token.XOR:
		f.regs[x] = Value{App("bitnot", SInt, v[0])}
	default:
		e.fail("unop %s", x.Op)
	}
}

func (e *Engine) binop(s *State, x *ssa.BinOp) Value {
	a, b := e.get(s, x.X), e.get(s, x.Y)
	t := x.X.Type()
	switch x.Op {
	case token.EQL, token.NEQ:
		var c *Term
		switch u := t.Underlying().(type) {
		case *types.Slice:
			// comparison with nil only
			if isNilConst(x.Y) {
				c = Eq(a[0], Zero)
			} else {
				c = Eq(b[0], Zero)
			}
		case *types.Interface:
			ya, yb := x.X.Type(), x.Y.Type()
			_, _ = ya, yb
			if isNilConst(x.Y) {
				c = Eq(a[0], Zero)
			} else if isNilConst(x.X) {
				c = Eq(b[0], Zero)
			} else {
				c = e.ifaceEq(s, a, b)
			}
		case *types.Struct:
			_ = u
			c = e.valueEq(s, t, a, b)
		default:
			c = e.valueEq(s, t, a, b)
		}
		if x.Op == token.NEQ {
			c = Not(c)
		}
		return Value{c}
	}
	if bt, ok := t.Underlying().(*types.Basic); ok && bt.Info()&types.IsString != 0 {
		switch x.Op {
		case token.ADD:
			return Value{Concat(a[0], b[0])}
		case token.LSS, token.GTR, token.LEQ, token.GEQ:
			return Value{App("strcmp."+x.Op.String(), SBool, a[0], b[0])}
		}
	}
	if a[0].S == SBool {
		switch x.Op {
		case token.AND, token.LAND:
			return Value{And(a[0], b[0])}
		case token.OR, token.LOR:
			return Value{Or(a[0], b[0])}
		}
	}
	bt, _ := t.Underlying().(*types.Basic)
	isFloat := bt != nil && bt.Info()&(types.IsFloat|types.IsComplex) != 0
	if isFloat {
		switch x.Op {
		case token.LSS, token.GTR, token.LEQ, token.GEQ:
			return Value{App("fcmp."+x.Op.String(), SBool, a[0], b[0])}
		}
		return Value{App("fop."+x.Op.String(), SInt, a[0], b[0])}
	}
	lo, hi, bounded := intRange(bt)
	arith := func(r *Term) Value {
		// machine arithmetic treated as mathematical with an explicit no-overflow obligation
		if r.K != KInt && bounded {
			e.safe(s, x, "overflow", And(Le(Int(lo), r), Le(r, Int(hi))))
		}
		return Value{r}
	}
	switch x.Op {
	case token.ADD:
		return arith(Add(a[0], b[0]))
	case token.SUB:
		return arith(Sub(a[0], b[0]))
	case token.MUL:
		return arith(Mul(a[0], b[0]))
	case token.QUO:
		e.safe(s, x, "divzero", Ne(b[0], Zero))
		if a[0].K == KInt && b[0].K == KInt && b[0].I != 0 {
			return Value{Int(a[0].I / b[0].I)}
		}
		return Value{App("goquo", SInt, a[0], b[0])}
	case token.REM:
		e.safe(s, x, "divzero", Ne(b[0], Zero))
		if a[0].K == KInt && b[0].K == KInt && b[0].I != 0 {
			return Value{Int(a[0].I % b[0].I)}
		}
		return Value{App("gorem", SInt, a[0], b[0])}
	case token.LSS:
		return Value{Lt(a[0], b[0])}
	case token.LEQ:
		return Value{Le(a[0], b[0])}
	case token.GTR:
		return Value{Lt(b[0], a[0])}
	case token.GEQ:
		return Value{Le(b[0], a[0])}
	case token.AND, token.OR, token.XOR, token.SHL, token.SHR, token.AND_NOT:
		if a[0].K == KInt && b[0].K == KInt {
			switch x.Op {
			case token.AND:
				return Value{Int(a[0].I & b[0].I)}
			case token.OR:
				return Value{Int(a[0].I | b[0].I)}
			case token.XOR:
				return Value{Int(a[0].I ^ b[0].I)}
			}
		}
		return Value{App("bitop."+x.Op.String(), SInt, a[0], b[0])}
	}
	e.fail("binop %s", x.Op)
	return nil
}

func intRange(bt *types.Basic) (int64, int64, bool) {
	if bt == nil {
		return 0, 0, false
	}
	switch bt.Kind() {
	case types.Int, types.Int64:
		return -1 << 63, 1<<63 - 1, true
	case types.Int32:
		return -1 << 31, 1<<31 - 1, true
	case types.Int16:
		return -1 << 15, 1<<15 - 1, true
	case types.Int8:
		return -128, 127, true
	case types.Uint8:
		return 0, 255, true
	case types.Uint16:
		return 0, 65535, true
	case types.Uint32:
		return 0, 1<<32 - 1, true
	}
	return 0, 0, false
}

func isNilConst(v ssa.Value) bool {
	c, ok := v.(*ssa.Const)
	return ok && c.Value == nil
}

// valueEq: componentwise equality of two values of type t (strings, scalars, pointers, structs).
func (e *Engine) valueEq(s *State, t types.Type, a, b Value) *Term {
	switch u := t.Underlying().(type) {
	case *types.Interface:
		return e.ifaceEq(s, a, b)
	case *types.Struct:
		if n, ok := t.(*types.Named); ok && !e.isTransparent(n) {
			return Eq(a[0], b[0])
		}
		var cs []*Term
		off := 0
		for i := 0; i < u.NumFields(); i++ {
			n := len(e.layout(u.Field(i).Type()))
			cs = append(cs, e.valueEq(s, u.Field(i).Type(), a[off:off+n], b[off:off+n]))
			off += n
		}
		return And(cs...)
	case *types.Slice:
		e.fail("slice comparison")
	}
	var cs []*Term
	for i := range a {
		cs = append(cs, Eq(a[i], b[i]))
	}
	return And(cs...)
}

// ifaceEq: interface equality. Pointer-shaped dynamic types compare by (tag, ref);
// boxed dynamic types compare by content when the tag is concrete, otherwise by an
// uninterpreted predicate.
func (e *Engine) ifaceEq(s *State, a, b Value) *Term {
	tagEq := Eq(a[0], b[0])
	if tagEq == False {
		return False
	}
	if a[0].K == KInt && a[0].I != 0 {
		t := e.typeByID[a[0].I]
		if !isPointerShaped(t) {
			va := e.unbox(s, t, a[1])
			vb := e.unbox(s, t, b[1])
			return And(tagEq, e.valueEq(s, t, va, vb))
		}
	}
	if a[0].K == KInt && a[0].I == 0 {
		return tagEq
	}
	if a[0].K != KInt && b[0].K != KInt {
		// unknown dynamic types: equal payload refs imply equality; otherwise undetermined
		same := And(tagEq, Eq(a[1], b[1]))
		if same == True {
			return True
		}
		return Or(same, And(tagEq, App("boxeq", SBool, a[1], b[1])))
	}
	return And(tagEq, Eq(a[1], b[1]))
}

func isPointerShaped(t types.Type) bool {
	switch t.Underlying().(type) {
	case *types.Pointer, *types.Map, *types.Chan, *types.Signature:
		return true
	}
	return false
}

func (e *Engine) makeIface(s *State, t types.Type, v Value) Value {
	if _, ok := t.Underlying().(*types.Interface); ok {
		return v
	}
	if isPointerShaped(t) {
		return Value{e.typeID(t), v[0]}
	}
	box := s.newAlloc("box(" + e.typeKey(t) + ")")
	e.store(s, Place{Prefix: "box(" + e.typeKey(t) + ")", Addr: []*Term{box}}, t, v)
	return Value{e.typeID(t), box}
}

func (e *Engine) unbox(s *State, t types.Type, payload *Term) Value {
	if isPointerShaped(t) {
		return Value{payload}
	}
	return e.load(s, Place{Prefix: "box(" + e.typeKey(t) + ")", Addr: []*Term{payload}}, t)
}

func (e *Engine) convert(s *State, x *ssa.Convert) Value {
	v := e.get(s, x.X)
	from, to := x.X.Type().Underlying(), x.Type().Underlying()
	fb, fok := from.(*types.Basic)
	tb, tok := to.(*types.Basic)
	switch {
	case fok && tok && fb.Info()&types.IsString != 0 && tb.Info()&types.IsString != 0:
		return v
	case fok && tok && fb.Info()&types.IsNumeric != 0 && tb.Info()&types.IsNumeric != 0:
		if fb.Info()&types.IsInteger != 0 && tb.Info()&types.IsInteger != 0 {
			lo, hi, bounded := intRange(tb)
			if v[0].K == KInt {
				if !bounded || (v[0].I >= lo && v[0].I <= hi) {
					return v
				}
			}
			flo, fhi, fbounded := intRange(fb)
			if bounded && fbounded && flo >= lo && fhi <= hi {
				return v
			}
			if !bounded && fb.Info()&types.IsUnsigned == 0 && tb.Info()&types.IsUnsigned == 0 {
				return v
			}
			return Value{App("intconv."+tb.Name(), SInt, v[0])}
		}
		return Value{App("numconv."+tb.Name(), SInt, v[0])}
	case tok && tb.Info()&types.IsString != 0:
		// []byte / rune / int -> string
		if sl, ok := from.(*types.Slice); ok {
			_ = sl
			// the whole of a byte slice whose content is a known string (os.ReadFile, []byte(s)): that string
			if v[0].K == KAlloc && v[1] == Zero {
				c := s.sel("bytesof", SStr, []*Term{v[0]})
				if v[2] == StrLen(c) {
					return Value{c}
				}
			}
			return Value{App("bytes2str", SStr, v[0], v[1], v[2])}
		}
		return Value{App("rune2str", SStr, v[0])}
	case fok && fb.Info()&types.IsString != 0:
		if _, ok := to.(*types.Slice); ok {
			// string -> []byte: fresh array whose content is the string
			r := s.newAlloc("[]byte")
			n := StrLen(v[0])
			s.sto("bytesof", []*Term{r}, v[0])
			return Value{r, Zero, n, n}
		}
	}
	if _, ok := to.(*types.Pointer); ok {
		return v
	}
	e.fail("convert %v -> %v", x.X.Type(), x.Type())
	return nil
}

func (e *Engine) sliceOp(s *State, x *ssa.Slice) {
	f := s.top()
	var lo, hi *Term
	if x.Low != nil {
		lo = e.get(s, x.Low)[0]
	}
	if x.High != nil {
		hi = e.get(s, x.High)[0]
	}
	if x.Max != nil {
		e.fail("3-index slice")
	}
	switch xt := x.X.Type().Underlying().(type) {
	case *types.Basic: // string
		str := e.get(s, x.X)[0]
		n := StrLen(str)
		if lo == nil {
			lo = Zero
		}
		if hi == nil {
			hi = n
		}
		e.safe(s, x, "", And(Le(Zero, lo), Le(lo, hi), Le(hi, n)))
		f.regs[x] = Value{substr(str, lo, hi)}
	case *types.Slice:
		sl := e.get(s, x.X)
		if lo == nil {
			lo = Zero
		}
		if hi == nil {
			hi = sl[2]
		}
		e.safe(s, x, "", And(Le(Zero, lo), Le(lo, hi), Le(hi, sl[3])))
		f.regs[x] = Value{sl[0], Add(sl[1], lo), Sub(hi, lo), Sub(sl[3], lo)}
	case *types.Pointer:
		arr := xt.Elem().Underlying().(*types.Array)
		p := e.get(s, x.X)[0]
		if lo == nil {
			lo = Zero
		}
		if hi == nil {
			hi = Int(arr.Len())
		}
		e.safe(s, x, "", And(Ne(p, Zero), Le(Zero, lo), Le(lo, hi), Le(hi, Int(arr.Len()))))
		f.regs[x] = Value{p, lo, Sub(hi, lo), Sub(Int(arr.Len()), lo)}
	default:
		e.fail("slice of %v", x.X.Type())
	}
}

func substr(str, lo, hi *Term) *Term {
	if str.K == KStrLit && lo.K == KInt && hi.K == KInt && lo.I >= 0 && hi.I <= int64(len(str.Name)) && lo.I <= hi.I {
		return Str(str.Name[lo.I:hi.I])
	}
	if lo == Zero && hi == StrLen(str) {
		return str
	}
	return App("substr", SStr, str, lo, hi)
}

// ---------------------------------------------------------------- type assertions

// implCond: condition under which dynamic type tag `tag` satisfies asserted type t.
func (e *Engine) implCond(tag *Term, t types.Type) *Term {
	if it, ok := t.Underlying().(*types.Interface); ok {
		if tag.K == KInt {
			if tag.I == 0 {
				return False
			}
			dt := e.typeByID[tag.I]
			return Bool(types.Implements(dt, it))
		}
		if tag.isOp("ite") {
			return Ite(tag.Args[0], e.implCond(tag.Args[1], t), e.implCond(tag.Args[2], t))
		}
		return And(Ne(tag, Zero), App("implements."+e.typeKey(t), SBool, tag))
	}
	return Eq(tag, e.typeID(t))
}

func (e *Engine) typeAssert(s *State, x *ssa.TypeAssert) {
	f := s.top()
	v := e.get(s, x.X)
	ok := e.implCond(v[0], x.AssertedType)
	_, toIface := x.AssertedType.Underlying().(*types.Interface)
	var res Value
	if toIface {
		res = v
	} else if isPointerShaped(x.AssertedType) {
		res = Value{v[1]}
	} else {
		res = e.unbox(s, x.AssertedType, v[1])
	}
	if x.CommaOk {
		if !toIface && isPointerShaped(x.AssertedType) && e.curPhaseB && ok != False {
			sub := s.fork()
			sub.assume(ok)
			before := len(sub.pc)
			e.afterAssert(sub, x.AssertedType, res)
			for _, c := range sub.pc[before:] {
				s.assume(Implies(ok, c))
			}
		}
		if ok != True {
			z := e.zero(x.AssertedType)
			r := make(Value, len(res))
			for i := range res {
				r[i] = Ite(ok, res[i], z[i])
			}
			res = r
		}
		f.regs[x] = append(append(Value{}, res...), ok)
		return
	}
	e.safe(s, x, "", ok)
	if !toIface && isPointerShaped(x.AssertedType) {
		pl := Place{}
		_ = pl
		e.afterAssert(s, x.AssertedType, res)
	}
	f.regs[x] = res
}

// ---------------------------------------------------------------- maps

func (e *Engine) mapKeys(mt *types.Map, m *Term, k Value) []*Term {
	return append([]*Term{m}, k...)
}

func (e *Engine) mapStore(s *State, mt *types.Map, m *Term, k, v Value) {
	tk := e.typeKey(mt)
	addr := e.mapKeys(mt, m, k)
	had := s.sel("mapdom("+tk+")", SBool, addr)
	s.sto("mapdom("+tk+")", addr, True)
	for i, sl := range e.layout(mt.Elem()) {
		s.sto("mapval("+tk+")"+sl.Suffix, addr, v[i])
	}
	oldlen := s.sel("maplen("+tk+")", SInt, []*Term{m})
	s.sto("maplen("+tk+")", []*Term{m}, Ite(had, oldlen, Add(oldlen, Int(1))))
}

func (e *Engine) mapLoad(s *State, mt *types.Map, m *Term, k Value) (Value, *Term) {
	tk := e.typeKey(mt)
	addr := e.mapKeys(mt, m, k)
	nonnil := Ne(m, Zero)
	has := And(nonnil, s.sel("mapdom("+tk+")", SBool, addr))
	l := e.layout(mt.Elem())
	v := make(Value, len(l))
	for i, sl := range l {
		v[i] = Ite(has, s.sel("mapval("+tk+")"+sl.Suffix, SortOf(sl), addr), zeroOf(sl.Sort))
	}
	if has != False {
		e.typingAssume(s, mt.Elem(), v)
		e.afterMapLoad(s, mt, m, k, v, has)
	}
	return v, has
}

func SortOf(s slot) Sort { return s.Sort }

func (e *Engine) lookup(s *State, x *ssa.Lookup) {
	f := s.top()
	switch xt := x.X.Type().Underlying().(type) {
	case *types.Map:
		m := e.get(s, x.X)[0]
		v, has := e.mapLoad(s, xt, m, e.get(s, x.Index))
		if x.CommaOk {
			f.regs[x] = append(append(Value{}, v...), has)
		} else {
			f.regs[x] = v
		}
	case *types.Basic:
		str := e.get(s, x.X)[0]
		idx := e.get(s, x.Index)[0]
		e.safe(s, x, "", And(Le(Zero, idx), Lt(idx, StrLen(str))))
		f.regs[x] = Value{strByteAt(str, idx)}
	default:
		e.fail("lookup on %v", x.X.Type())
	}
}

// next: one step of a map (or string) iteration: an arbitrary element.
func (e *Engine) next(s *State, x *ssa.Next) {
	f := s.top()
	rng := x.Iter.(*ssa.Range)
	it := e.get(s, x.Iter)
	okT := Sym(e.freshName("hv.next.ok"), SBool)
	if x.IsString {
		idx := Sym(e.freshName("hv.next.idx"), SInt)
		s.assume(Implies(okT, And(Le(Zero, idx), Lt(idx, StrLen(it[0])))))
		f.regs[x] = Value{okT, idx, App("runeat", SInt, it[0], idx)}
		return
	}
	mt := rng.X.Type().Underlying().(*types.Map)
	if len(it) == 3 && it[1].K == KInt {
		// concrete iteration
		keys := e.mapIters[it[1].I]
		idx := int(it[2].I)
		if idx >= len(keys) {
			r := Value{False}
			r = append(r, e.zero(mt.Key())...)
			r = append(r, e.zero(mt.Elem())...)
			f.regs[x] = r
			return
		}
		k := keys[idx]
		f.regs[x.Iter] = Value{it[0], it[1], Int(int64(idx + 1))}
		val, _ := e.mapLoad(s, mt, it[0], k)
		r := Value{True}
		r = append(r, k...)
		r = append(r, val...)
		f.regs[x] = r
		return
	}
	pcAt := len(s.pc)
	symAt := e.symN - 1 // the ok symbol just created belongs to the iteration
	k := e.freshValue(s, mt.Key(), e.freshName("hv.next.key"))
	// register the map-range iteration (DET obligations)
	la := e.loops(f.fn)
	for _, lp := range la.headers {
		if lp.body[x.Block()] {
			inner := true
			for _, lp2 := range la.headers {
				if lp2 != lp && lp2.body[x.Block()] && lp.body[lp2.header] && len(lp2.body) < len(lp.body) {
					inner = false
				}
			}
			if inner {
				var keep []*mapLoopInfo
				for _, m := range f.mapLoops {
					if m.lp != lp {
						keep = append(keep, m)
					}
				}
				syms := append([]*Term{okT}, k...)
				f.mapLoops = append(keep, &mapLoopInfo{lp: lp, keySyms: syms, nAlloc: *s.nalloc, pcAt: pcAt, symAt: symAt})
			}
		}
	}
	tk := e.typeKey(mt)
	addr := e.mapKeys(mt, it[0], k)
	s.assume(Implies(okT, And(Ne(it[0], Zero), s.sel("mapdom("+tk+")", SBool, addr))))
	l := e.layout(mt.Elem())
	v := make(Value, len(l))
	for i, sl := range l {
		v[i] = s.sel("mapval("+tk+")"+sl.Suffix, sl.Sort, addr)
	}
	e.typingAssume(s, mt.Elem(), v)
	// element invariants are assumed only when the element exists
	sub := s
	_ = sub
	e.afterMapLoad(s, mt, it[0], k, v, okT)
	r := Value{okT}
	r = append(r, k...)
	r = append(r, v...)
	f.regs[x] = r
}
