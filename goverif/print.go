package main

// PRINT (C09): path-sensitive retention.
//
// COVER (spell.go) is a necessary condition: some formatter function reads the element.  PRINT is the
// per-path statement: each formatter method Visit<X>(ctx) is executed symbolically on an arbitrary
// grammar-conforming node (the same run that produces its SAFE obligations), and on EVERY return path on
// which a content element E of the node is present, the returned text must contain E:
//   (a) a term built from E's node (its token text, the text of the rule node), or
//   (b) the result of a call that was handed E's node or text (delegation to another formatter function:
//       child.Accept(v), docText(node), ...), or
//   (c) for an optional keyword with fixed text (ROOT, REPEAT): a literal containing the keyword.
// "Present on the path" is decided by SMT: the path is excused only when its path condition implies that E
// is absent.  Elements that occur more than once (AllX() loops) are not covered: the loop cut replaces the
// builder content by a fresh symbol.  One obligation per (context, element): PRINT:<Ctx>:<elem>.
//
// This catches the class "printed only when some other optional element is present too", which reads
// every element somewhere and therefore passes COVER.

import (
	"fmt"
	"regexp"
	"go/types"
	"sort"
	"strings"
	"time"
	"unicode"

	"golang.org/x/tools/go/ssa"
)

func termMentions(t *Term, pred func(*Term) bool, seen map[*Term]bool) bool {
	if t == nil || seen[t] {
		return false
	}
	seen[t] = true
	if pred(t) {
		return true
	}
	for _, a := range t.Args {
		if termMentions(a, pred, seen) {
			return true
		}
	}
	return false
}

func mentions(t *Term, pred func(*Term) bool) bool {
	return termMentions(t, pred, map[*Term]bool{})
}

type printElem struct {
	ctxType string // context type that owns the element
	name    string // element or label
	node    func(ctx *Term) func(*Term) bool
	present func(ctx *Term) *Term
	keyword string // optional keyword with fixed text
}

func (e *Engine) printElems(cs *ctxSpec) []printElem {
	ts := e.tree
	separators := map[string]bool{"COMMA": true, "SEMICOLON": true, "COLON": true}
	var out []printElem
	labelled := map[string]bool{}
	var lbls []string
	for l := range cs.labels {
		lbls = append(lbls, l)
	}
	sort.Strings(lbls)
	for _, l := range lbls {
		l := l
		if c, ok := cs.counts[cs.labels[l]]; ok && !c.many {
			continue // a single occurrence: the label and the plain accessor denote the same node, handled below
		}
		labelled[cs.labels[l]] = true
		nodeName := "acc.label." + cs.typeName + "." + l
		out = append(out, printElem{ctxType: cs.typeName, name: l,
			node: func(ctx *Term) func(*Term) bool {
				cs0 := ctx.String()
				return func(t *Term) bool {
					return t.K == KApp && t.Name == nodeName && len(t.Args) == 1 && t.Args[0].String() == cs0
				}
			},
			present: func(ctx *Term) *Term { return ts.labelPresent(cs, l, ctx) }})
	}
	var els []string
	for el := range cs.counts {
		els = append(els, el)
	}
	sort.Strings(els)
	for _, el := range els {
		el := el
		c := cs.counts[el]
		if c.max0 || c.many || separators[el] || labelled[el] {
			continue
		}
		if !unicode.IsUpper(rune(el[0])) && !unicode.IsLower(rune(el[0])) {
			continue // literal punctuation
		}
		isTok := unicode.IsUpper(rune(el[0]))
		kw := ""
		if isTok && len(ts.tokLits[el]) == 1 {
			if c.min >= 1 {
				continue // mandatory keyword: printed as a literal
			}
			kw = ts.tokLits[el][0]
		}
		nodeNames := map[string]bool{"acc." + cs.typeName + "." + el: true}
		for l, target := range cs.labels {
			if target == el {
				nodeNames["acc.label."+cs.typeName+"."+l] = true
			}
		}
		out = append(out, printElem{ctxType: cs.typeName, name: el, keyword: kw,
			node: func(ctx *Term) func(*Term) bool {
				cs0 := ctx.String()
				return func(t *Term) bool {
					return t.K == KApp && nodeNames[t.Name] && len(t.Args) == 1 && t.Args[0].String() == cs0
				}
			},
			present: func(ctx *Term) *Term { return ts.present(cs, el, ctx) }})
	}
	return out
}

// printNotDelegates: formatter methods that take a node but return comments around it, not its content.
var printNotDelegates = map[string]bool{"getCommentsInside": true, "getCommentsBefore": true, "getHiddenLeft": true, "getHiddenRight": true, "getHiddenRightAtSameLine": true}

// printDelegatesTrusted: helper functions of the formatter that are handed a node or a text and return a
// text containing it, but whose body cuts a loop (so the path executor cannot show it).  Listed in the
// evidence as assumptions.
var printDelegatesTrusted = map[string]bool{}

func (e *Engine) printObligations(budget time.Duration) []*Obligation {
	saveKinds, saveFrame := e.cfg.Kinds, e.cfg.CheckFrame
	e.cfg.Kinds = map[string]bool{}
	e.cfg.CheckFrame = false
	defer func() {
		e.cfg.Kinds, e.cfg.CheckFrame = saveKinds, saveFrame
		e.onReturn = nil
	}()
	strT := types.Typ[types.String]
	var fns []*ssa.Function
	for _, fn := range e.allRepoFunctions() {
		if fn.Signature.Recv() == nil || !strings.Contains(fn.Signature.Recv().Type().String(), "PacketDslFormattor") {
			continue
		}
		// every method of the formatter that is handed one parse-tree node: the Visit methods and any helper
		// a Visit method passes its whole node to
		if len(fn.Params) != 2 || fn.Name() == "VisitTerminal" || fn.Name() == "VisitErrorNode" || fn.Name() == "VisitChildren" || fn.Name() == "Visit" {
			continue
		}
		fns = append(fns, fn)
	}
	sort.Slice(fns, func(i, j int) bool { return fns[i].String() < fns[j].String() })
	type verdict struct {
		ok    bool
		paths int
		notes []string
	}
	results := map[string]*verdict{}
	var order []string
	get := func(name string) *verdict {
		v, ok := results[name]
		if !ok {
			v = &verdict{ok: true}
			results[name] = v
			order = append(order, name)
		}
		return v
	}
	for _, fn := range fns {
		fn := fn
		pt := fn.Params[1].Type()
		var ctxTypes []*ctxSpec
		rule := ""
		if tn := grammarCtxName(pt); tn != "" {
			if _, ok := e.tree.ctxs[tn]; !ok && strings.HasPrefix(tn, "I") {
				tn = tn[1:] // interface I<Rule>Context of a rule with labelled alternatives
			}
			if cs := e.tree.ctxs[tn]; cs != nil {
				rule = cs.rule.name
				if cs.alt == nil && len(e.tree.ruleAlts[cs.rule.name]) > 0 {
					for _, a := range e.tree.ruleAlts[cs.rule.name] {
						ctxTypes = append(ctxTypes, e.tree.ctxs[a])
					}
				} else {
					ctxTypes = append(ctxTypes, cs)
				}
			}
		}
		if len(ctxTypes) == 0 {
			// a method taking interface{} whose contract says which rule the node comes from
			if ct := e.contracts.lookup(e, fn); ct != nil {
				for _, rq := range ct.requires {
					if m := reIsNode.FindStringSubmatch(rq.text); m != nil && m[1] == fn.Params[1].Name() {
						if r := e.tree.rules[m[2]]; r != nil {
							rule = m[2]
							if alts := e.tree.ruleAlts[rule]; len(alts) > 0 {
								for _, a := range alts {
									ctxTypes = append(ctxTypes, e.tree.ctxs[a])
								}
							} else if cs := e.tree.ctxs[exportName(rule)+"Context"]; cs != nil {
								ctxTypes = append(ctxTypes, cs)
							}
						}
					}
				}
			}
		}
		if len(ctxTypes) == 0 {
			continue
		}
		var paths []pathResult
		e.onReturn = func(f *ssa.Function, r pathResult) {
			if f == fn {
				paths = append(paths, r)
			}
		}
		rep := e.verifyFunction(fn)
		e.onReturn = nil
		if rep.Err != "" {
			v := get("PRINT:" + e.shortFunc(fn) + ":run")
			v.ok = false
			v.notes = append(v.notes, "symbolic execution failed: "+rep.Err)
			continue
		}
		for _, cs := range ctxTypes {
			if cs == nil {
				continue
			}
			for _, el := range e.printElems(cs) {
				name := fmt.Sprintf("PRINT:%s:%s", cs.typeName, el.name)
				v := get(name)
				for _, r := range paths {
					if len(r.ret) == 0 {
						continue
					}
					var text *Term
					switch {
					case len(r.ret[0]) == 2:
						text = e.unbox(r.st, strT, r.ret[0][1])[0]
					case len(r.ret[0]) == 1 && r.ret[0][0].S == SStr:
						text = r.ret[0][0]
					default:
						continue
					}
					params := r.st.frames[0].params
					if len(params) < 2 {
						continue
					}
					pv := params[1]
					ctx := pv[len(pv)-1]
					if text.K == KStrLit && text.Name == "error" {
						continue // the formatter's own error result (unexpected node type)
					}
					pres := el.present(ctx)
					if len(ctxTypes) > 1 {
						isAlt := Eq(e.ruleNodeTag(rule, ctx), e.typeID(e.ptrTo(grammarPkg, cs.typeName)))
						pres = And(isAlt, pres)
					}
					if pres == False {
						continue
					}
					v.paths++
					isNode := el.node(ctx)
					printed := mentions(text, isNode)
					if !printed && el.keyword != "" {
						kw := el.keyword
						printed = mentions(text, func(t *Term) bool { return t.K == KStrLit && strings.Contains(t.Name, kw) })
					}
					if !printed {
						// delegation: a recorded call that received the node (or its text) and whose result is in the text
						for _, ev := range r.st.trace {
							if ev.Kind != "call" {
								continue
							}
							got := false
							for _, a := range ev.Args {
								if mentions(a, isNode) {
									got = true
								}
								// the whole node handed to another Visit method of the formatter, which has
								// its own PRINT obligations for the elements of that node
								if strings.Contains(ev.Note, "PacketDslFormattor).") && !printNotDelegates[ev.Note[strings.LastIndex(ev.Note, ".")+1:]] && a.String() == ctx.String() {
									got = true
								}
							}
							if !got {
								continue
							}
							for _, rs := range ev.Res {
								for _, sy := range resultSyms(rs) {
									sy := sy
									if mentions(text, func(t *Term) bool { return t.K == KSym && t.Name == sy }) {
										printed = true
									}
								}
							}
						}
					}
					if printed {
						continue
					}
					// excused only when the path condition implies the element is absent
					res := solve(smtQuery(r.st.pc, Not(pres), r.st.marks), budget)
					if res.Verdict == "unsat" {
						continue
					}
					v.ok = false
					if len(v.notes) < 3 {
						v.notes = append(v.notes, fmt.Sprintf("%s: a return path on which %s may be present (solver: %s) returns a text without it: %s", e.shortFunc(fn), el.name, res.Verdict, clip(text.String(), 600)))
					}
				}
			}
		}
	}
	var out []*Obligation
	for _, n := range order {
		v := results[n]
		desc := "on every return path of the formatter method on which the element is present, the returned text contains it (token text, text of the sub-rule, result of the call it was handed to, or the keyword)"
		if v.ok && v.paths == 0 {
			v.ok = false
			v.notes = append(v.notes, "vacuous: no return path of the formatter method has this element possibly present")
		}
		desc += fmt.Sprintf(" [%d return paths with the element possibly present]", v.paths)
		o := mkObl(n, "PRINT", "formatter", desc, v.ok, strings.Join(v.notes, " | "))
		if v.ok {
			o.Backend = "path-executor+smt"
		}
		out = append(out, o)
	}
	return out
}

func resultSyms(t *Term) []string {
	var out []string
	termMentions(t, func(x *Term) bool {
		if x.K == KSym {
			out = append(out, x.Name)
		}
		return false
	}, map[*Term]bool{})
	return out
}

func clip(s string, n int) string {
	if len(s) > n {
		return s[:n] + "…"
	}
	return s
}

var _ = time.Second

var reIsNode = regexp.MustCompile(`isnode\((\w+),\s*(\w+)\)`)
