package main

import (
	"bytes"
	"context"
	"os/exec"
	"strings"
	"sync"
	"time"
)

type SolveResult struct {
	Verdict string // unsat | sat | unknown | timeout | error
	Backend string
	Model   string
	Secs    float64
	Raw     string
}

type backend struct {
	name string
	argv []string
}

var backends = []backend{
	{"z3-4.8.12", []string{"/usr/bin/z3", "-in", "-smt2"}},
	{"z3-5.1.0", []string{"z3-new", "-in", "-smt2"}},
	{"cvc5-1.0", []string{"/usr/bin/cvc5", "--lang=smt2", "--produce-models"}},
}

func runBackend(ctx context.Context, b backend, script string, timeout time.Duration) SolveResult {
	c, cancel := context.WithTimeout(ctx, timeout)
	defer cancel()
	cmd := exec.CommandContext(c, b.argv[0], b.argv[1:]...)
	cmd.Stdin = strings.NewReader(script)
	var out bytes.Buffer
	cmd.Stdout = &out
	cmd.Stderr = &out
	t0 := time.Now()
	err := cmd.Run()
	secs := time.Since(t0).Seconds()
	raw := out.String()
	first := strings.TrimSpace(strings.SplitN(raw, "\n", 2)[0])
	r := SolveResult{Backend: b.name, Secs: secs, Raw: raw}
	switch first {
	case "unsat", "sat", "unknown":
		r.Verdict = first
		if first == "sat" {
			if i := strings.Index(raw, "\n"); i >= 0 {
				r.Model = raw[i+1:]
			}
		}
	default:
		if c.Err() != nil {
			r.Verdict = "timeout"
		} else {
			_ = err
			r.Verdict = "error"
		}
	}
	return r
}

// solve: z3 4.8 first with a short budget, then race the other two.
func solve(script string, budget time.Duration) SolveResult {
	ctx := context.Background()
	first := 2 * time.Second
	if budget < first {
		first = budget
	}
	r := runBackend(ctx, backends[0], script, first)
	total := r.Secs
	if r.Verdict == "unsat" || r.Verdict == "sat" {
		return r
	}
	c, cancel := context.WithCancel(ctx)
	defer cancel()
	ch := make(chan SolveResult, 2)
	for _, b := range backends[1:] {
		go func(b backend) { ch <- runBackend(c, b, script, budget) }(b)
	}
	best := r
	for i := 0; i < 2; i++ {
		x := <-ch
		if x.Verdict == "unsat" || x.Verdict == "sat" {
			x.Secs += total
			return x
		}
		if best.Verdict == "error" || best.Verdict == "timeout" {
			best = x
		}
	}
	best.Secs += total
	return best
}

// solveAll: every back end must agree (thorough tier).
func solveAll(script string, budget time.Duration) []SolveResult {
	var wg sync.WaitGroup
	res := make([]SolveResult, len(backends))
	for i, b := range backends {
		wg.Add(1)
		go func(i int, b backend) {
			defer wg.Done()
			res[i] = runBackend(context.Background(), b, script, budget)
		}(i, b)
	}
	wg.Wait()
	return res
}

// crossSolve (thorough tier): every back end is asked; one `sat` fails the obligation (also when
// another back end says unsat: a disagreement is never counted as proved); otherwise the obligation
// is discharged by the back ends that answered unsat, all of which are named.
func crossSolve(script string, budget time.Duration) SolveResult {
	res := solveAll(script, budget)
	var unsat []string
	var secs float64
	var other *SolveResult
	for i := range res {
		secs += res[i].Secs
		switch res[i].Verdict {
		case "sat":
			r := res[i]
			r.Secs = secs
			return r
		case "unsat":
			unsat = append(unsat, res[i].Backend)
		default:
			other = &res[i]
		}
	}
	if len(unsat) > 0 {
		return SolveResult{Verdict: "unsat", Backend: strings.Join(unsat, "&"), Secs: secs}
	}
	r := *other
	r.Secs = secs
	return r
}
