package main

// Trusted contracts of library functions (the "trusted base"). Each entry is an
// executable specification: it binds the call's result and performs the ghost effects.

import (
	"fmt"
	"go/types"
	"html/template"
	"regexp"
	"strconv"
	"strings"

	"github.com/iancoleman/strcase"
	"golang.org/x/tools/go/ssa"
)

type externSpec func(e *Engine, s *State, x ssa.CallInstruction, fn *ssa.Function, args []Value) ([]*State, bool)
type invokeSpec func(e *Engine, s *State, x ssa.CallInstruction, recv Value, args []Value)

var externTable map[string]externSpec
var invokeTable map[string]invokeSpec
var externWriteTable = map[string][]string{
	"(*strings.Builder).WriteString":               {"strings.Builder"},
	"(*strings.Builder).WriteByte":                 {"strings.Builder"},
	"(*strings.Builder).WriteRune":                 {"strings.Builder"},
	"(*bytes.Buffer).WriteString":                  {"bytes.Buffer"},
	"(*bytes.Buffer).Write":                        {"bytes.Buffer"},
	"(*html/template.Template).Execute":            {"bytes.Buffer"},
	"sort.Strings":                                 {"elem(string)"},
	"(*" + grammarPkg + ".PacketDslParser).Packet": {"parser.SyntaxErrorListener.Errors"},
}

func (e *Engine) externWrites(name string) []string {
	if w, ok := externWriteTable[name]; ok {
		return w
	}
	return nil
}

func (e *Engine) externFunc(name string) externSpec {
	if externTable == nil {
		initExterns()
	}
	return externTable[name]
}

func (e *Engine) externInvoke(name string) invokeSpec {
	if externTable == nil {
		initExterns()
	}
	return invokeTable[name]
}

func pure1(name string, conc func(string) string) externSpec {
	return func(e *Engine, s *State, x ssa.CallInstruction, fn *ssa.Function, args []Value) ([]*State, bool) {
		a := args[0][0]
		if a.K == KStrLit && conc != nil {
			e.bindResult(s, x, Value{Str(conc(a.Name))})
		} else if a.isOp("ite") && conc != nil && a.Args[1].K == KStrLit && a.Args[2].K == KStrLit {
			e.bindResult(s, x, Value{Ite(a.Args[0], Str(conc(a.Args[1].Name)), Str(conc(a.Args[2].Name)))})
		} else {
			e.bindResult(s, x, Value{App(name, SStr, a)})
		}
		return nil, true
	}
}

// sprintf renders a constant format over symbolic arguments into a concat list.
func (e *Engine) sprintf(s *State, format *Term, args Value, at ssa.CallInstruction) *Term {
	if format.K != KStrLit {
		e.assumed["fmt.Sprintf with non-constant format: result opaque"] = true
		return App("fmt.dyn", SStr, format)
	}
	// args is a []any slice value
	n := args[2]
	if n.K != KInt {
		return App("fmt.dynargs", SStr, format)
	}
	var parts []*Term
	f := format.Name
	ai := int64(0)
	anyT := types.NewInterfaceType(nil, nil)
	for i := 0; i < len(f); i++ {
		c := f[i]
		if c != '%' {
			j := i
			for j < len(f) && f[j] != '%' {
				j++
			}
			parts = append(parts, Str(f[i:j]))
			i = j - 1
			continue
		}
		// verb
		j := i + 1
		for j < len(f) && strings.ContainsRune("+-# 0123456789.", rune(f[j])) {
			j++
		}
		if j >= len(f) {
			parts = append(parts, Str("%!(NOVERB)"))
			break
		}
		verb := f[j]
		flags := f[i+1 : j]
		i = j
		if verb == '%' {
			parts = append(parts, Str("%"))
			continue
		}
		if ai >= n.I {
			parts = append(parts, Str("%!"+string(verb)+"(MISSING)"))
			continue
		}
		av := e.load(s, Place{Prefix: "elem(" + e.typeKey(anyT) + ")", Addr: []*Term{args[0], Add(args[1], Int(ai))}}, anyT)
		ai++
		parts = append(parts, e.fmtArg(s, verb, flags, av))
	}
	if ai < n.I {
		parts = append(parts, Str("%!(EXTRA)"))
	}
	return Concat(parts...)
}

func (e *Engine) fmtArg(s *State, verb byte, flags string, av Value) *Term {
	tag := av[0]
	if tag.isOp("ite") {
		return Ite(tag.Args[0], e.fmtArg(s, verb, flags, Value{tag.Args[1], av[1]}), e.fmtArg(s, verb, flags, Value{tag.Args[2], av[1]}))
	}
	if tag.K != KInt {
		return App("fmt.any."+string(verb), SStr, tag, av[1])
	}
	if tag.I == 0 {
		return Str("%!" + string(verb) + "(<nil>)")
	}
	t := e.typeByID[tag.I]
	v := e.unbox(s, t, av[1])
	if b, ok := t.Underlying().(*types.Basic); ok {
		switch {
		case b.Info()&types.IsString != 0:
			if flags == "" && (verb == 's' || verb == 'v') {
				return v[0]
			}
			if verb == 'q' {
				if v[0].K == KStrLit {
					return Str(strconv.Quote(v[0].Name))
				}
				return App("strconv.Quote", SStr, v[0])
			}
			return App("fmt.str."+flags+string(verb), SStr, v[0])
		case b.Info()&types.IsInteger != 0:
			if v[0].K == KInt && flags == "" && (verb == 'd' || verb == 'v') {
				return Str(strconv.FormatInt(v[0].I, 10))
			}
			return App("fmt.int."+flags+string(verb), SStr, v[0])
		case b.Info()&types.IsBoolean != 0:
			if v[0] == True {
				return Str("true")
			}
			if v[0] == False {
				return Str("false")
			}
			return Ite(v[0], Str("true"), Str("false"))
		}
	}
	// other dynamic types (error values, structs, maps): opaque rendering of the payload
	return App("fmt.val."+e.typeKey(t)+"."+string(verb), SStr, av[1])
}

func strOf(v Value) *Term { return v[0] }

func (e *Engine) stdout(s *State, t *Term) {
	s.trace = append(s.trace, Event{Kind: "stdout", Args: []*Term{t}})
}

// sprintArgs renders Println/Sprint style arguments (space separated operands).
func (e *Engine) sprintArgs(s *State, args Value, sep string) *Term {
	n := args[2]
	if n.K != KInt {
		return App("fmt.dynargs", SStr)
	}
	anyT := types.NewInterfaceType(nil, nil)
	var parts []*Term
	for i := int64(0); i < n.I; i++ {
		if i > 0 {
			parts = append(parts, Str(sep))
		}
		av := e.load(s, Place{Prefix: "elem(" + e.typeKey(anyT) + ")", Addr: []*Term{args[0], Add(args[1], Int(i))}}, anyT)
		parts = append(parts, e.fmtArg(s, 'v', "", av))
	}
	return Concat(parts...)
}

func (e *Engine) errorValue(s *State, msg *Term) Value {
	// a non-nil error whose message is msg
	errT := e.ptrToNamedOrNil("errors", "errorString")
	r := s.newAlloc("error")
	s.sto("errmsg", []*Term{r}, msg)
	if errT == nil {
		return Value{Int(999999), r}
	}
	return Value{e.typeID(errT), r}
}

func (e *Engine) ptrToNamedOrNil(pkg, name string) types.Type {
	p := e.prog.ImportedPackage(pkg)
	if p == nil {
		return nil
	}
	m := p.Type(name)
	if m == nil {
		return nil
	}
	return types.NewPointer(m.Type())
}

// symbolic error result: nil or non-nil, decided by a fresh boolean.
func (e *Engine) maybeError(s *State, what string) (Value, *Term) {
	fails := Sym(e.freshName("ext."+what+".fails"), SBool)
	tag := Sym(e.freshName("ext."+what+".errtag"), SInt)
	val := Sym(e.freshName("ext."+what+".err"), SInt)
	s.assume(Lt(Zero, tag))
	return Value{Ite(fails, tag, Zero), Ite(fails, val, Zero)}, fails
}

func initExterns() {
	externTable = map[string]externSpec{}
	invokeTable = map[string]invokeSpec{}
	ret := func(f func(e *Engine, s *State, x ssa.CallInstruction, args []Value) Value) externSpec {
		return func(e *Engine, s *State, x ssa.CallInstruction, fn *ssa.Function, args []Value) ([]*State, bool) {
			v := f(e, s, x, args)
			e.bindResult(s, x, v)
			return nil, true
		}
	}
	builderPlace := func(p *Term, kind string) Place {
		if p.K == KPlace {
			panic(execError{"strings.Builder behind an interior pointer"})
		}
		return Place{Prefix: kind, Addr: []*Term{p}}
	}
	bplace := func(e *Engine, p *Term, kind string) Place {
		if p.K == KPlace {
			pl := e.places[p.I]
			return pl
		}
		return builderPlace(p, kind)
	}
	// ---- strings.Builder / bytes.Buffer
	for _, kind := range []string{"strings.Builder", "bytes.Buffer"} {
		kind := kind
		externTable["(*"+kind+").WriteString"] = ret(func(e *Engine, s *State, x ssa.CallInstruction, args []Value) Value {
			e.safe(s, x, "recv", Ne(args[0][0], Zero))
			pl := bplace(e, args[0][0], kind)
			old := s.sel(pl.Prefix+"#content", SStr, pl.Addr)
			e.detAppend(s, x, pl.Addr[0], args[1][0])
			s.sto(pl.Prefix+"#content", pl.Addr, Concat(old, args[1][0]))
			return Value{StrLen(args[1][0]), Zero, Zero}
		})
		externTable["(*"+kind+").String"] = ret(func(e *Engine, s *State, x ssa.CallInstruction, args []Value) Value {
			if args[0][0] == Zero {
				return Value{Str("<nil>")}
			}
			pl := bplace(e, args[0][0], kind)
			return Value{s.sel(pl.Prefix+"#content", SStr, pl.Addr)}
		})
		externTable["(*"+kind+").Len"] = ret(func(e *Engine, s *State, x ssa.CallInstruction, args []Value) Value {
			pl := bplace(e, args[0][0], kind)
			return Value{StrLen(s.sel(pl.Prefix+"#content", SStr, pl.Addr))}
		})
		externTable["(*"+kind+").WriteByte"] = ret(func(e *Engine, s *State, x ssa.CallInstruction, args []Value) Value {
			e.safe(s, x, "recv", Ne(args[0][0], Zero))
			pl := bplace(e, args[0][0], kind)
			old := s.sel(pl.Prefix+"#content", SStr, pl.Addr)
			var b *Term
			if args[1][0].K == KInt {
				b = Str(string([]byte{byte(args[1][0].I)}))
			} else {
				b = App("byte2str", SStr, args[1][0])
			}
			s.sto(pl.Prefix+"#content", pl.Addr, Concat(old, b))
			return Value{Zero, Zero}
		})
	}
	// ---- fmt
	externTable["fmt.Sprintf"] = ret(func(e *Engine, s *State, x ssa.CallInstruction, args []Value) Value {
		return Value{e.sprintf(s, args[0][0], args[1], x)}
	})
	externTable["fmt.Errorf"] = ret(func(e *Engine, s *State, x ssa.CallInstruction, args []Value) Value {
		return e.errorValue(s, e.sprintf(s, args[0][0], args[1], x))
	})
	externTable["fmt.Sprint"] = ret(func(e *Engine, s *State, x ssa.CallInstruction, args []Value) Value {
		return Value{e.sprintArgs(s, args[0], "")}
	})
	externTable["fmt.Println"] = ret(func(e *Engine, s *State, x ssa.CallInstruction, args []Value) Value {
		e.stdout(s, Concat(e.sprintArgs(s, args[0], " "), Str("\n")))
		return Value{Sym(e.freshName("ext.println.n"), SInt), Zero, Zero}
	})
	externTable["fmt.Printf"] = ret(func(e *Engine, s *State, x ssa.CallInstruction, args []Value) Value {
		e.stdout(s, e.sprintf(s, args[0][0], args[1], x))
		return Value{Sym(e.freshName("ext.printf.n"), SInt), Zero, Zero}
	})
	// ---- strcase (pure, total; evaluated concretely on literals)
	externTable["github.com/iancoleman/strcase.ToCamel"] = pure1("strcase.ToCamel", strcase.ToCamel)
	externTable["github.com/iancoleman/strcase.ToLowerCamel"] = pure1("strcase.ToLowerCamel", strcase.ToLowerCamel)
	externTable["github.com/iancoleman/strcase.ToSnake"] = pure1("strcase.ToSnake", strcase.ToSnake)
	// ---- strings
	toLower := pure1("strings.ToLower", strings.ToLower)
	externTable["strings.ToLower"] = func(e *Engine, s *State, x ssa.CallInstruction, fn *ssa.Function, args []Value) ([]*State, bool) {
		// instances of the definition for the literals boolean options are compared with
		if a := args[0][0]; a.K != KStrLit {
			r := App("strings.ToLower", SStr, a)
			for _, lit := range []string{"true", "false"} {
				s.assume(Implies(Eq(a, Str(lit)), Eq(r, Str(lit))))
			}
		}
		return toLower(e, s, x, fn, args)
	}
	externTable["strings.ToUpper"] = pure1("strings.ToUpper", strings.ToUpper)
	externTable["strings.TrimSpace"] = pure1("strings.TrimSpace", strings.TrimSpace)
	str2 := func(name string, conc func(a, b string) string) externSpec {
		return ret(func(e *Engine, s *State, x ssa.CallInstruction, args []Value) Value {
			a, b := args[0][0], args[1][0]
			if a.K == KStrLit && b.K == KStrLit {
				return Value{Str(conc(a.Name, b.Name))}
			}
			return Value{App(name, SStr, a, b)}
		})
	}
	externTable["strings.Trim"] = str2("strings.Trim", strings.Trim)
	externTable["strings.TrimRight"] = str2("strings.TrimRight", strings.TrimRight)
	externTable["strings.TrimLeft"] = str2("strings.TrimLeft", strings.TrimLeft)
	externTable["strings.TrimPrefix"] = str2("strings.TrimPrefix", strings.TrimPrefix)
	externTable["strings.TrimSuffix"] = str2("strings.TrimSuffix", strings.TrimSuffix)
	pred2 := func(name string, conc func(a, b string) bool) externSpec {
		return ret(func(e *Engine, s *State, x ssa.CallInstruction, args []Value) Value {
			a, b := args[0][0], args[1][0]
			if a.K == KStrLit && b.K == KStrLit {
				return Value{Bool(conc(a.Name, b.Name))}
			}
			r := App(name, SBool, a, b)
			if name != "strings.EqualFold" {
				s.assume(Implies(r, Le(StrLen(b), StrLen(a)))) // a substring is not longer than the string
			}
			return Value{r}
		})
	}
	externTable["strings.Contains"] = pred2("strings.Contains", strings.Contains)
	externTable["strings.HasPrefix"] = pred2("strings.HasPrefix", strings.HasPrefix)
	externTable["strings.HasSuffix"] = pred2("strings.HasSuffix", strings.HasSuffix)
	externTable["strings.EqualFold"] = pred2("strings.EqualFold", strings.EqualFold)
	externTable["strings.ReplaceAll"] = ret(func(e *Engine, s *State, x ssa.CallInstruction, args []Value) Value {
		a, b, c := args[0][0], args[1][0], args[2][0]
		if a.K == KStrLit && b.K == KStrLit && c.K == KStrLit {
			return Value{Str(strings.ReplaceAll(a.Name, b.Name, c.Name))}
		}
		return Value{App("strings.ReplaceAll", SStr, a, b, c)}
	})
	externTable["strings.Repeat"] = ret(func(e *Engine, s *State, x ssa.CallInstruction, args []Value) Value {
		a, n := args[0][0], args[1][0]
		// panics on negative count and when len(s)*count overflows; allocation of more than 2^31 bytes
		// is treated as a crash as well (the process is killed by the OOM killer / throws).
		e.safe(s, x, "count", And(Le(Zero, n), Le(Mul(StrLen(a), n), Int(1<<31))))
		if a.K == KStrLit && n.K == KInt && n.I >= 0 && n.I*int64(len(a.Name)) < 4096 {
			return Value{Str(strings.Repeat(a.Name, int(n.I)))}
		}
		return Value{App("strings.Repeat", SStr, a, n)}
	})
	externTable["strings.Join"] = ret(func(e *Engine, s *State, x ssa.CallInstruction, args []Value) Value {
		sl, sep := args[0], args[1][0]
		if sl[2].K == KInt && sl[2].I <= 64 {
			var parts []*Term
			for i := int64(0); i < sl[2].I; i++ {
				if i > 0 {
					parts = append(parts, sep)
				}
				parts = append(parts, s.sel("elem(string)", SStr, []*Term{sl[0], Add(sl[1], Int(i))}))
			}
			return Value{Concat(parts...)}
		}
		return Value{App("strings.Join", SStr, sl[0], sl[1], sl[2], sep, Int(int64(e.heapStamp(s, "elem(string)"))))}
	})
	// ---- strconv
	externTable["strconv.Atoi"] = ret(func(e *Engine, s *State, x ssa.CallInstruction, args []Value) Value {
		a := args[0][0]
		if a.K == KStrLit {
			if n, err := strconv.Atoi(a.Name); err == nil {
				return Value{Int(int64(n)), Zero, Zero}
			}
		}
		n := App("strconv.Atoi", SInt, a)
		errv, _ := e.maybeError(s, "atoi")
		// digits-only texts never yield a negative number (range errors yield MaxInt64)
		s.assume(Implies(App("isdigits", SBool, a), Le(Zero, n)))
		return Value{n, errv[0], errv[1]}
	})
	externTable["strconv.Itoa"] = ret(func(e *Engine, s *State, x ssa.CallInstruction, args []Value) Value {
		if args[0][0].K == KInt {
			return Value{Str(strconv.FormatInt(args[0][0].I, 10))}
		}
		return Value{App("fmt.int.d", SStr, args[0][0])}
	})
	// ---- regexp
	externTable["regexp.MustCompile"] = ret(func(e *Engine, s *State, x ssa.CallInstruction, args []Value) Value {
		p := args[0][0]
		ok := False
		if p.K == KStrLit {
			if _, err := regexp.Compile(p.Name); err == nil {
				ok = True
			}
		}
		e.safe(s, x, "pattern", ok)
		r := s.newAlloc("regexp.Regexp")
		s.sto("regexp.pattern", []*Term{r}, p)
		return Value{r}
	})
	externTable["(*regexp.Regexp).FindStringSubmatch"] = ret(func(e *Engine, s *State, x ssa.CallInstruction, args []Value) Value {
		e.safe(s, x, "recv", Ne(args[0][0], Zero))
		pat := s.sel("regexp.pattern", SStr, []*Term{args[0][0]})
		arr := App("old.regexp.submatch", SInt, pat, args[1][0])
		n := App("regexp.nsub", SInt, pat, args[1][0])
		s.assume(Le(Zero, n))
		if pat.K == KStrLit {
			if re, err := regexp.Compile(pat.Name); err == nil {
				// result is nil or has exactly NumSubexp+1 elements
				s.assume(Or(Eq(n, Zero), Eq(n, Int(int64(re.NumSubexp()+1)))))
			}
		}
		return Value{Ite(Eq(n, Zero), Zero, arr), Zero, n, n}
	})
	// ---- sort
	externTable["sort.Strings"] = ret(func(e *Engine, s *State, x ssa.CallInstruction, args []Value) Value {
		// the slice is permuted in place: new[i] == old[perm(i)] for a permutation perm of [0,len)
		sl := args[0]
		if e.cfg.CheckFrame && e.curFramed {
			oname := e.siteName("FRAME", x, "extern-arg")
			if ch := s.top().chain; ch != "" {
				oname = ch + "/" + oname
			}
			e.oblige(s, "FRAME", oname, "sort.Strings writes through its slice argument: it must be handed memory allocated by this activation", x.Pos(), Or(freshCond(sl[0]), Eq(sl[0], Zero)))
		}
		old := s.heap.clone()
		ver := e.nextVer()
		s.havocFamily("elem(string)", ver)
		e.symN++
		bv := Sym(fmt.Sprintf("bv.sorti#%d", e.symN), SInt)
		perm := App(fmt.Sprintf("sort.perm#%d", ver), SInt, bv)
		newAt := s.sel("elem(string)", SStr, []*Term{sl[0], Add(sl[1], bv)})
		oldAt := s.selectIn(old, "elem(string)", SStr, []*Term{sl[0], Add(sl[1], perm)})
		rng := And(Le(Zero, bv), Lt(bv, sl[2]))
		s.assume(Forall(bv, Implies(rng, And(Le(Zero, perm), Lt(perm, sl[2]), Eq(newAt, oldAt)))))
		return nil
	})
	// ---- time (impure: recorded for DET)
	externTable["time.Now"] = ret(func(e *Engine, s *State, x ssa.CallInstruction, args []Value) Value {
		s.trace = append(s.trace, Event{Kind: "impure", Note: "time.Now"})
		e.detImpure(s, x, "time.Now")
		return e.havocResult(s, x, "time.Now")
	})
	externTable["(time.Time).Year"] = ret(func(e *Engine, s *State, x ssa.CallInstruction, args []Value) Value {
		return Value{App("time.year", SInt, args[0][0])}
	})
	// ---- os / filepath (ghost file system trace)
	externTable["os.ReadFile"] = func(e *Engine, s *State, x ssa.CallInstruction, fn *ssa.Function, args []Value) ([]*State, bool) {
		// two outcomes, explored separately: an error and no data, or the file's content and no error
		fails := Sym(e.freshName("ext.readfile.fails"), SBool)
		tag := Sym(e.freshName("ext.readfile.errtag"), SInt)
		val := Sym(e.freshName("ext.readfile.err"), SInt)
		content := App("fs.content", SStr, args[0][0], Int(int64(len(s.trace))))
		bad := s.fork()
		bad.assume(fails)
		bad.assume(Lt(Zero, tag))
		bad.assume(Ne(val, Zero))
		e.bindResult(bad, x, Value{Zero, Zero, Zero, Zero, tag, val})
		s.assume(Not(fails))
		r := s.newAlloc("[]byte")
		s.sto("bytesof", []*Term{r}, content)
		n := StrLen(content)
		e.bindResult(s, x, Value{r, Zero, n, n, Zero, Zero})
		return []*State{bad, s}, false
	}
	externTable["os.WriteFile"] = ret(func(e *Engine, s *State, x ssa.CallInstruction, args []Value) Value {
		errv, _ := e.maybeError(s, "writefile")
		e.detFS(s, x, "writefile", args[0][0])
		s.trace = append(s.trace, Event{Kind: "writefile", Args: []*Term{args[0][0], e.bytesContent(s, args[1])}})
		return errv
	})
	externTable["os.MkdirAll"] = ret(func(e *Engine, s *State, x ssa.CallInstruction, args []Value) Value {
		errv, _ := e.maybeError(s, "mkdirall")
		s.trace = append(s.trace, Event{Kind: "mkdir", Args: []*Term{args[0][0]}})
		return errv
	})
	externTable["os.Create"] = ret(func(e *Engine, s *State, x ssa.CallInstruction, args []Value) Value {
		errv, fails := e.maybeError(s, "create")
		f := s.newAlloc("os.File")
		e.detFS(s, x, "create", args[0][0])
		s.sto("os.File.name", []*Term{f}, args[0][0])
		s.trace = append(s.trace, Event{Kind: "create", Args: []*Term{args[0][0]}})
		return Value{Ite(fails, Zero, f), errv[0], errv[1]}
	})
	externTable["(*os.File).Write"] = ret(func(e *Engine, s *State, x ssa.CallInstruction, args []Value) Value {
		errv, _ := e.maybeError(s, "filewrite")
		name := s.sel("os.File.name", SStr, []*Term{args[0][0]})
		s.trace = append(s.trace, Event{Kind: "filewrite", Args: []*Term{name, e.bytesContent(s, args[1])}})
		return Value{Sym(e.freshName("ext.write.n"), SInt), errv[0], errv[1]}
	})
	externTable["(*os.File).Close"] = ret(func(e *Engine, s *State, x ssa.CallInstruction, args []Value) Value {
		errv, _ := e.maybeError(s, "close")
		return errv
	})
	externTable["os.Exit"] = func(e *Engine, s *State, x ssa.CallInstruction, fn *ssa.Function, args []Value) ([]*State, bool) {
		s.trace = append(s.trace, Event{Kind: "exit", Args: []*Term{args[0][0]}})
		e.exited = append(e.exited, s)
		return nil, false // path ends
	}
	externTable["path/filepath.Dir"] = pure1("filepath.Dir", nil)
	// ---- html/template
	externTable["html/template.New"] = ret(func(e *Engine, s *State, x ssa.CallInstruction, args []Value) Value {
		return Value{s.newAlloc("template.Template")}
	})
	externTable["(*html/template.Template).Parse"] = ret(func(e *Engine, s *State, x ssa.CallInstruction, args []Value) Value {
		e.safe(s, x, "recv", Ne(args[0][0], Zero))
		txt := args[1][0]
		if txt.K == KStrLit {
			if _, err := template.New("x").Parse(txt.Name); err == nil {
				s.sto("template.text", []*Term{args[0][0]}, txt)
				return Value{args[0][0], Zero, Zero}
			}
			return append(Value{Zero}, e.errorValue(s, Str("template parse error"))...)
		}
		errv, fails := e.maybeError(s, "tmplparse")
		s.assume(Eq(fails, Not(App("validtemplate", SBool, txt))))
		s.sto("template.text", []*Term{args[0][0]}, txt)
		return Value{Ite(fails, Zero, args[0][0]), errv[0], errv[1]}
	})
	externTable["html/template.Must"] = ret(func(e *Engine, s *State, x ssa.CallInstruction, args []Value) Value {
		e.safe(s, x, "err", Eq(args[1][0], Zero))
		return Value{args[0][0]}
	})
	externTable["(*html/template.Template).Execute"] = ret(func(e *Engine, s *State, x ssa.CallInstruction, args []Value) Value {
		e.safe(s, x, "recv", Ne(args[0][0], Zero))
		// writer is *bytes.Buffer in this code base: appends an opaque rendering
		w := args[1]
		errv, _ := e.maybeError(s, "tmplexec")
		if w[0].K == KInt && w[0].I != 0 && e.typeKey(e.typeByID[w[0].I]) == "*bytes.Buffer" {
			old := s.sel("bytes.Buffer#content", SStr, []*Term{w[1]})
			txt := s.sel("template.text", SStr, []*Term{args[0][0]})
			out := e.renderTemplate(s, txt, args[2])
			s.sto("bytes.Buffer#content", []*Term{w[1]}, Concat(old, out))
			if !(out.K == KApp && out.Name == "template.render") {
				// every action resolved against the data: execution cannot fail
				return Value{Zero, Zero}
			}
		} else {
			e.assumed["template.Execute into an unknown writer"] = true
		}
		return errv
	})
	// ---- antlr runtime and generated parser (trusted)
	externTable[antlrPkg+".NewInputStream"] = ret(func(e *Engine, s *State, x ssa.CallInstruction, args []Value) Value {
		r := s.newAlloc("antlr.InputStream")
		s.sto("antlr.input", []*Term{r}, args[0][0])
		return Value{r}
	})
	externTable[grammarPkg+".NewPacketDslLexer"] = ret(func(e *Engine, s *State, x ssa.CallInstruction, args []Value) Value {
		r := s.newAlloc("gen.PacketDslLexer")
		s.sto("antlr.lexer.input", []*Term{r}, args[0][1])
		return Value{r}
	})
	externTable[antlrPkg+".NewCommonTokenStream"] = ret(func(e *Engine, s *State, x ssa.CallInstruction, args []Value) Value {
		r := s.newAlloc("antlr.CommonTokenStream")
		s.sto("antlr.stream.lexer", []*Term{r}, args[0][1])
		return Value{r}
	})
	externTable[grammarPkg+".NewPacketDslParser"] = ret(func(e *Engine, s *State, x ssa.CallInstruction, args []Value) Value {
		r := s.newAlloc("gen.PacketDslParser")
		s.sto("antlr.parser.stream", []*Term{r}, args[0][1])
		return Value{r}
	})
	externTable["(*"+antlrPkg+".BaseRecognizer).RemoveErrorListeners"] = ret(func(e *Engine, s *State, x ssa.CallInstruction, args []Value) Value {
		e.safe(s, x, "recv", Ne(args[0][0], Zero))
		s.sto("antlr.parser.listener", []*Term{args[0][0]}, Zero)
		return nil
	})
	externTable["(*"+antlrPkg+".BaseRecognizer).AddErrorListener"] = ret(func(e *Engine, s *State, x ssa.CallInstruction, args []Value) Value {
		e.safe(s, x, "recv", Ne(args[0][0], Zero))
		s.sto("antlr.parser.listener", []*Term{args[0][0]}, args[1][1])
		return nil
	})
	externTable["(*"+grammarPkg+".PacketDslParser).Packet"] = ret(func(e *Engine, s *State, x ssa.CallInstruction, args []Value) Value {
		e.safe(s, x, "recv", Ne(args[0][0], Zero))
		// effect: the registered listener may have received SyntaxError calls
		s.havocFamily("parser.SyntaxErrorListener.Errors", e.nextVer())
		root := Sym(e.freshName("in.parse.root"), SInt)
		s.assume(Ne(root, Zero))
		return Value{e.typeID(e.ptrTo(grammarPkg, "PacketContext")), root}
	})
	hidden := func(dir string) externSpec {
		return ret(func(e *Engine, s *State, x ssa.CallInstruction, args []Value) Value {
			e.safe(s, x, "recv", Ne(args[0][0], Zero))
			arr := App("tok.hidden."+dir, SInt, args[0][0], args[1][0], args[2][0])
			n := App("tok.nhidden."+dir, SInt, args[0][0], args[1][0], args[2][0])
			s.assume(Le(Zero, n))
			e.arrSpecs[arr] = func(idx *Term) Value {
				return Value{e.tokenTag(), App("tok.hiddenelem", SInt, arr, idx)}
			}
			e.arrFacts[arr] = func(st *State, idx *Term) {
				st.assume(Ne(App("tok.hiddenelem", SInt, arr, idx), Zero))
			}
			// nil when there are no hidden tokens
			return Value{Ite(Eq(n, Zero), Zero, arr), Zero, n, n}
		})
	}
	externTable["(*"+antlrPkg+".CommonTokenStream).GetHiddenTokensToLeft"] = hidden("left")
	externTable["(*"+antlrPkg+".CommonTokenStream).GetHiddenTokensToRight"] = hidden("right")
	baseCtx := func(name string) externSpec {
		return func(e *Engine, s *State, x ssa.CallInstruction, fn *ssa.Function, args []Value) ([]*State, bool) {
			// receiver is &ctx.BaseParserRuleContext: recover the context type from the SSA operand
			var cn string
			for v := x.Common().Args[0]; ; {
				fa, ok := v.(*ssa.FieldAddr)
				if !ok {
					break
				}
				if n := grammarCtxName(fa.X.Type()); n != "" && e.tree.ctxs[n] != nil {
					cn = n
				}
				v = fa.X
			}
			if cn == "" || e.tree.ctxs[cn] == nil {
				e.assumed["antlr.BaseParserRuleContext."+name+" on a context of unknown rule: result unconstrained"] = true
				e.bindResult(s, x, e.havocResult(s, x, name))
				return nil, true
			}
			cs := e.tree.ctxs[cn]
			ctx := args[0][0]
			e.safe(s, x, "recv", Ne(ctx, Zero))
			switch name {
			case "GetStart":
				t := App("acc.start", SInt, ctx)
				s.assume(Ne(t, Zero))
				e.bindResult(s, x, Value{e.tokenTag(), t})
			case "GetStop":
				t := App("acc.stop", SInt, ctx)
				if cs.nullable {
					has := App("acc.hasstop", SBool, ctx)
					s.assume(Implies(has, Ne(t, Zero)))
					e.bindResult(s, x, Value{Ite(has, e.tokenTag(), Zero), Ite(has, t, Zero)})
				} else {
					s.assume(Ne(t, Zero))
					e.bindResult(s, x, Value{e.tokenTag(), t})
				}
			case "GetChildren":
				e.bindResult(s, x, e.tree.children(e, s, cs, ctx))
			case "GetText":
				e.bindResult(s, x, Value{tokText(s, App("tok.ctxtext", SStr, ctx))})
			}
			return nil, true
		}
	}
	for _, n := range []string{"GetStart", "GetStop", "GetChildren", "GetText"} {
		externTable["(*"+antlrPkg+".BaseParserRuleContext)."+n] = baseCtx(n)
	}
	// interface-method specs on runtime objects whose dynamic type is symbolic or external
	tokM := func(name string, sort Sort) {
		f := func(e *Engine, s *State, x ssa.CallInstruction, recv Value, args []Value) {
			e.bindResult(s, x, Value{App("tok."+name, sort, recv[1])})
		}
		invokeTable["("+antlrPkg+".Token)."+name] = f
		externTable["(*"+antlrPkg+".CommonToken)."+name] = func(e *Engine, s *State, x ssa.CallInstruction, fn *ssa.Function, args []Value) ([]*State, bool) {
			e.safe(s, x, "recv", Ne(args[0][0], Zero))
			e.bindResult(s, x, Value{App("tok."+name, sort, args[0][0])})
			return nil, true
		}
		externTable["(*"+antlrPkg+".BaseToken)."+name] = externTable["(*"+antlrPkg+".CommonToken)."+name]
	}
	// lines are 1-based (ANTLR: the lexer starts at line 1)
	tokLine := func(e *Engine, s *State, tok *Term) *Term {
		l := App("tok.GetLine", SInt, tok)
		s.assume(Le(Int(1), l))
		s.assume(Lt(l, Int(maxLen)))
		return l
	}
	invokeTable["("+antlrPkg+".Token).GetLine"] = func(e *Engine, s *State, x ssa.CallInstruction, recv Value, args []Value) {
		e.bindResult(s, x, Value{tokLine(e, s, recv[1])})
	}
	for _, recvT := range []string{"CommonToken", "BaseToken"} {
		externTable["(*"+antlrPkg+"."+recvT+").GetLine"] = ret(func(e *Engine, s *State, x ssa.CallInstruction, args []Value) Value {
			e.safe(s, x, "recv", Ne(args[0][0], Zero))
			return Value{tokLine(e, s, args[0][0])}
		})
	}
	// token indices are positions in the stream's token list (-1 before the token is buffered)
	tokIdx := func(e *Engine, s *State, tok *Term) *Term {
		idx := App("tok.GetTokenIndex", SInt, tok)
		s.assume(Le(Int(-1), idx))
		s.assume(Lt(idx, Int(maxLen)))
		return idx
	}
	invokeTable["("+antlrPkg+".Token).GetTokenIndex"] = func(e *Engine, s *State, x ssa.CallInstruction, recv Value, args []Value) {
		e.bindResult(s, x, Value{tokIdx(e, s, recv[1])})
	}
	for _, recvT := range []string{"CommonToken", "BaseToken"} {
		externTable["(*"+antlrPkg+"."+recvT+").GetTokenIndex"] = ret(func(e *Engine, s *State, x ssa.CallInstruction, args []Value) Value {
			e.safe(s, x, "recv", Ne(args[0][0], Zero))
			return Value{tokIdx(e, s, args[0][0])}
		})
	}
	// nullable tokens of a context whose rule is not known statically
	nullableTok := func(fn string) invokeSpec {
		return func(e *Engine, s *State, x ssa.CallInstruction, recv Value, args []Value) {
			t := App("acc.dyn"+fn, SInt, recv[0], recv[1])
			has := App("acc.dynhas"+fn, SBool, recv[0], recv[1])
			s.assume(Implies(has, Ne(t, Zero)))
			e.bindResult(s, x, Value{Ite(has, e.tokenTag(), Zero), Ite(has, t, Zero)})
		}
	}
	invokeTable["("+antlrPkg+".ParserRuleContext).GetStart"] = nullableTok("start")
	invokeTable["("+antlrPkg+".ParserRuleContext).GetStop"] = nullableTok("stop")
	// token stream: the buffered token list only grows, so Size() is modelled as a function of the
	// stream; Get(i) indexes that list (runtime panic outside 0 <= i < Size()).
	tsSize := func(e *Engine, s *State, ts *Term) *Term {
		n := App("ts.size", SInt, ts)
		s.assume(Le(Zero, n))
		s.assume(Le(n, Int(maxLen)))
		return n
	}
	externTable["(*"+antlrPkg+".CommonTokenStream).Size"] = ret(func(e *Engine, s *State, x ssa.CallInstruction, args []Value) Value {
		e.safe(s, x, "recv", Ne(args[0][0], Zero))
		e.assumed["the token stream's Size() does not shrink while the formatter runs (ANTLR's token buffer only grows)"] = true
		return Value{tsSize(e, s, args[0][0])}
	})
	externTable["(*"+antlrPkg+".CommonTokenStream).Get"] = ret(func(e *Engine, s *State, x ssa.CallInstruction, args []Value) Value {
		e.safe(s, x, "recv", Ne(args[0][0], Zero))
		e.safe(s, x, "index", And(Le(Zero, args[1][0]), Lt(args[1][0], tsSize(e, s, args[0][0]))))
		t := App("ts.get", SInt, args[0][0], args[1][0])
		s.assume(Ne(t, Zero))
		return Value{e.tokenTag(), t}
	})
	externTable["(*"+antlrPkg+".CommonTokenStream).LT"] = ret(func(e *Engine, s *State, x ssa.CallInstruction, args []Value) Value {
		e.safe(s, x, "recv", Ne(args[0][0], Zero))
		t := Sym(e.freshName("ext.LT"), SInt)
		has := Sym(e.freshName("ext.LT.has"), SBool)
		s.assume(Implies(has, Ne(t, Zero)))
		return Value{Ite(has, e.tokenTag(), Zero), Ite(has, t, Zero)}
	})
	tokM("GetTokenType", SInt)
	tokM("GetColumn", SInt)
	for _, recvT := range []string{"CommonToken", "BaseToken"} {
		externTable["(*"+antlrPkg+"."+recvT+").GetText"] = ret(func(e *Engine, s *State, x ssa.CallInstruction, args []Value) Value {
			e.safe(s, x, "recv", Ne(args[0][0], Zero))
			return Value{tokText(s, App("tok.text", SStr, args[0][0]))}
		})
		externTable["(*"+antlrPkg+"."+recvT+").GetTokenSource"] = ret(func(e *Engine, s *State, x ssa.CallInstruction, args []Value) Value {
			e.safe(s, x, "recv", Ne(args[0][0], Zero))
			src := App("tok.source", SInt, args[0][0])
			s.assume(Ne(src, Zero))
			e.assumed["tokens produced by the generated lexer carry a non-nil token source"] = true
			return Value{e.typeID(e.ptrTo(grammarPkg, "PacketDslLexer")), src}
		})
	}
	invokeTable["("+antlrPkg+".Token).GetText"] = func(e *Engine, s *State, x ssa.CallInstruction, recv Value, args []Value) {
		e.bindResult(s, x, Value{tokText(s, App("tok.text", SStr, recv[1]))})
	}
	invokeTable["("+antlrPkg+".Token).GetTokenSource"] = func(e *Engine, s *State, x ssa.CallInstruction, recv Value, args []Value) {
		src := App("tok.source", SInt, recv[1])
		s.assume(Ne(src, Zero))
		e.assumed["tokens produced by the generated lexer carry a non-nil token source"] = true
		e.bindResult(s, x, Value{e.typeID(e.ptrTo(grammarPkg, "PacketDslLexer")), src})
	}
	invokeTable["("+antlrPkg+".TokenSource).GetCharPositionInLine"] = func(e *Engine, s *State, x ssa.CallInstruction, recv Value, args []Value) {
		e.bindResult(s, x, Value{App("tok.charpos", SInt, recv[1])})
	}
	for _, n := range []string{"(*" + grammarPkg + ".PacketDslLexer).GetCharPositionInLine", "(*" + antlrPkg + ".BaseLexer).GetCharPositionInLine"} {
		externTable[n] = ret(func(e *Engine, s *State, x ssa.CallInstruction, args []Value) Value {
			return Value{App("tok.charpos", SInt, args[0][0])}
		})
	}
	externTable["(*"+antlrPkg+".TerminalNodeImpl).GetText"] = ret(func(e *Engine, s *State, x ssa.CallInstruction, args []Value) Value {
		e.safe(s, x, "recv", Ne(args[0][0], Zero))
		return Value{tokText(s, App("tok.text", SStr, App("tok.symbol", SInt, args[0][0])))}
	})
	externTable["(*"+antlrPkg+".TerminalNodeImpl).GetSymbol"] = ret(func(e *Engine, s *State, x ssa.CallInstruction, args []Value) Value {
		e.safe(s, x, "recv", Ne(args[0][0], Zero))
		sym := App("tok.symbol", SInt, args[0][0])
		s.assume(Ne(sym, Zero))
		return Value{e.tokenTag(), sym}
	})
	invokeTable["(error).Error"] = func(e *Engine, s *State, x ssa.CallInstruction, recv Value, args []Value) {
		e.bindResult(s, x, Value{App("err.msg", SStr, recv[0], recv[1])})
	}
	invokeTable["("+antlrPkg+".TerminalNode).GetSymbol"] = func(e *Engine, s *State, x ssa.CallInstruction, recv Value, args []Value) {
		sym := App("tok.symbol", SInt, recv[1])
		s.assume(Ne(sym, Zero))
		e.bindResult(s, x, Value{e.tokenTag(), sym})
	}
	invokeTable["("+antlrPkg+".ParseTree).GetText"] = func(e *Engine, s *State, x ssa.CallInstruction, recv Value, args []Value) {
		e.bindResult(s, x, Value{tokText(s, App("tok.nodetext", SStr, recv[0], recv[1]))})
	}
	// ---- cgo string conversion (identity on NUL-free text)
	externTable[repoMod+"/cmd._Cfunc_GoString"] = ret(func(e *Engine, s *State, x ssa.CallInstruction, args []Value) Value {
		return Value{App("cgo.GoString", SStr, args[0][0])}
	})
	externTable[repoMod+"/cmd._Cfunc_CString"] = ret(func(e *Engine, s *State, x ssa.CallInstruction, args []Value) Value {
		r := s.newAlloc("C.char")
		s.sto("cgo.cstring", []*Term{r}, args[0][0])
		return Value{r}
	})
	_ = fmt.Sprint
}

// heapStamp: a number identifying the current contents of a slot family (used to keep
// opaque summaries of heap-dependent library calls distinct across writes).
func (e *Engine) heapStamp(s *State, slot string) int {
	h := s.heap.get(slot)
	n := 0
	if h.stores != nil {
		n = h.stores.n
	}
	return h.ver*100000 + n
}

// bytesContent: the string content of a []byte value created from a string conversion.
func (e *Engine) bytesContent(s *State, sl Value) *Term {
	c := s.sel("bytesof", SStr, []*Term{sl[0]})
	return c
}

var reTmplAction = regexp.MustCompile(`\{\{\s*((?:\.[A-Za-z_][A-Za-z0-9_]*)+)\s*\}\}`)

// renderTemplate: templates made of literal text and {{.A}} / {{.A.B}} actions over a
// map[string]interface{} are rendered symbolically; anything else stays opaque.
func (e *Engine) renderTemplate(s *State, txt *Term, data Value) *Term {
	opaque := App("template.render", SStr, txt, data[0], data[1])
	if txt.K != KStrLit || data[0].K != KInt || data[0].I == 0 {
		return opaque
	}
	dt := e.typeByID[data[0].I]
	mt, ok := dt.Underlying().(*types.Map)
	if !ok {
		return opaque
	}
	if b, ok := mt.Key().Underlying().(*types.Basic); !ok || b.Kind() != types.String {
		return opaque
	}
	src := txt.Name
	if strings.Contains(reTmplAction.ReplaceAllString(src, ""), "{{") {
		return opaque // other template constructs
	}
	var parts []*Term
	last := 0
	for _, m := range reTmplAction.FindAllStringSubmatchIndex(src, -1) {
		parts = append(parts, Str(template.HTMLEscapeString("")+src[last:m[0]]))
		last = m[1]
		path := strings.Split(src[m[2]:m[3]][1:], ".")
		v, has := e.mapLoad(s, mt, data[1], Value{Str(path[0])})
		if has != True {
			return opaque
		}
		cur := v
		curT := mt.Elem()
		okPath := true
		for _, fld := range path[1:] {
			// cur is an interface holding a struct value
			if _, isIface := curT.Underlying().(*types.Interface); isIface {
				if cur[0].K != KInt || cur[0].I == 0 {
					okPath = false
					break
				}
				curT = e.typeByID[cur[0].I]
				cur = e.unbox(s, curT, cur[1])
			}
			st, isStruct := curT.Underlying().(*types.Struct)
			if !isStruct {
				okPath = false
				break
			}
			idx := fieldIndex(st, fld)
			if idx < 0 {
				okPath = false
				break
			}
			off, n := e.fieldRange(st, idx)
			cur = cur[off : off+n]
			curT = st.Field(idx).Type()
		}
		if !okPath {
			return opaque
		}
		if _, isIface := curT.Underlying().(*types.Interface); isIface {
			parts = append(parts, e.fmtArg(s, 'v', "", cur))
		} else {
			parts = append(parts, e.fmtArg(s, 'v', "", e.makeIface(s, curT, cur)))
		}
	}
	parts = append(parts, Str(src[last:]))
	return Concat(parts...)
}

// tokText: the text of a token or parse-tree node, marked as such: the uninterpreted predicate
// istoktext holds exactly for strings obtained from the lexer (used by contracts that say a model
// attribute is the text the author wrote, not something computed from it).
func tokText(s *State, t *Term) *Term {
	s.assume(App("istoktext", SBool, t))
	return t
}
